package ref

import (
	"verif/harness/ast"
)

// Decision is the reference authorizer's verdict.
type Decision struct {
	Class        string // OK DENY NOMATCH FAIL  ("" = no verdict: lenient / mixed / diverged)
	NoVerdict    string // reason when Class == ""
	FailedChecks []string
	PolicyIdx    int // index of the first matching policy, -1 = none
	Closure      Facts
	BlockWorlds  []Facts
	Signature    string // (check vector, policy index, kind) for coverage accounting
}

const budget = 20000

func anyQuery(qs []ast.Rule, facts Facts, ix index) (matched bool, fl Flags) {
	for _, q := range qs {
		ans, f := Answers(q, facts, ix)
		fl.merge(f)
		if f.Mixed || f.Lenient {
			// order-dependent or unspecified in the library: no verdict
			return false, fl
		}
		if len(ans) > 0 {
			return true, fl
		}
	}
	return false, fl
}

// Authorize runs the decision procedure of the property over builder-level content:
// closure = LFP(authorizer facts + authority facts, authorizer rules + authority rules);
// authorizer checks, authority checks and policies are evaluated on the closure;
// block i's checks on LFP(closure + block facts, block rules only).
func Authorize(blocks []ast.Block, a ast.AuthContent) Decision {
	d := Decision{PolicyIdx: -1}
	facts := append([]ast.Pred{}, a.Facts...)
	facts = append(facts, blocks[0].Facts...)
	rules := append([]ast.Rule{}, a.Rules...)
	rules = append(rules, blocks[0].Rules...)
	fr := Fixpoint(facts, rules, budget)
	if fr.Diverged {
		d.NoVerdict = "diverged"
		return d
	}
	if fr.Lenient {
		d.NoVerdict = "lenient expression"
		return d
	}
	if fr.Err {
		d.Class = "FAIL"
		d.Signature = "run-error"
		return d
	}
	d.Closure = fr.Facts
	ix := buildIndex(fr.Facts)
	sigv := ""
	noVerdict := ""
	runCheck := func(label string, c ast.Check, facts Facts, ix index) {
		ok, fl := anyQuery(c.Queries, facts, ix)
		if fl.Mixed || fl.Lenient {
			noVerdict = "check with order-dependent or lenient expression"
		}
		if ok {
			sigv += "1"
		} else {
			sigv += "0"
			d.FailedChecks = append(d.FailedChecks, label+": "+c.Key())
		}
	}
	for _, c := range a.Checks {
		runCheck("authorizer", c, fr.Facts, ix)
	}
	sigv += "|"
	for _, c := range blocks[0].Checks {
		runCheck("authority", c, fr.Facts, ix)
	}
	kind := "none"
	for i, p := range a.Policies {
		ok, fl := anyQuery(p.Queries, fr.Facts, ix)
		if fl.Mixed || fl.Lenient {
			noVerdict = "policy with order-dependent or lenient expression"
		}
		if ok {
			d.PolicyIdx = i
			if p.Allow {
				kind = "allow"
			} else {
				kind = "deny"
			}
			break
		}
	}
	for bi, b := range blocks[1:] {
		bf := make([]ast.Pred, 0, len(fr.Facts)+len(b.Facts))
		for _, f := range fr.Facts {
			bf = append(bf, f)
		}
		bf = append(bf, b.Facts...)
		br := Fixpoint(bf, b.Rules, budget)
		if br.Diverged {
			d.NoVerdict = "diverged"
			return d
		}
		if br.Lenient {
			d.NoVerdict = "lenient expression"
			return d
		}
		if br.Err {
			if noVerdict != "" {
				d.NoVerdict = noVerdict
				return d
			}
			d.Class = "FAIL"
			d.Signature = "block-run-error"
			return d
		}
		d.BlockWorlds = append(d.BlockWorlds, br.Facts)
		bix := buildIndex(br.Facts)
		sigv += "|"
		for _, c := range b.Checks {
			runCheck("block"+string(rune('1'+bi)), c, br.Facts, bix)
		}
	}
	if noVerdict != "" {
		d.NoVerdict = noVerdict
		return d
	}
	d.Signature = sigv + "/" + kind + "@" + string(rune('0'+d.PolicyIdx+1))
	switch {
	case len(d.FailedChecks) > 0:
		d.Class = "FAIL"
	case kind == "allow":
		d.Class = "OK"
	case kind == "deny":
		d.Class = "DENY"
	default:
		d.Class = "NOMATCH"
	}
	return d
}
