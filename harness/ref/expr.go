// Package ref holds the reference models: R2 (expressions, big-int exact),
// R1 (least fixpoint by naive iteration with substitution maps), R5 (the
// authorization decision procedure).  They are written at builder level and
// with different algorithms from the library on purpose.
package ref

import (
	"bytes"
	"math/big"
	"regexp"
	"strings"

	"verif/harness/ast"
)

// Res is the result of the reference expression evaluator.
type Res struct {
	V       ast.Term
	Err     bool   // the operator table says: this must be an error
	Lenient bool   // the sources are silent/disagree: only "no panic" (and NeverTrue) is required
	NoTrue  bool   // lenient, but the value must not be Bool(true)
	Why     string // short reason for Err / Lenient
}

var (
	minI64 = big.NewInt(-1 << 63)
	maxI64 = new(big.Int).SetUint64(1<<63 - 1)
)

func fits(x *big.Int) bool { return x.Cmp(minI64) >= 0 && x.Cmp(maxI64) <= 0 }

func errRes(why string) Res { return Res{Err: true, Why: why} }
func val(t ast.Term) Res    { return Res{V: t} }

// setNorm returns the de-duplicated elements of a set (first occurrence order).
func setNorm(t ast.Term) []ast.Term {
	seen := map[string]bool{}
	out := []ast.Term{}
	for _, e := range t.Set {
		k := e.Key()
		if !seen[k] {
			seen[k] = true
			out = append(out, e)
		}
	}
	return out
}

func member(set []ast.Term, e ast.Term) bool {
	k := e.Key()
	for _, x := range set {
		if x.Key() == k {
			return true
		}
	}
	return false
}

// Unary evaluates one unary operator.
func Unary(code int, v ast.Term) Res {
	switch code {
	case ast.UParens:
		return val(v)
	case ast.UNegate:
		if v.K != ast.KBool {
			return errRes("! on non-bool")
		}
		return val(ast.Bool(!v.Bo))
	case ast.ULength:
		switch v.K {
		case ast.KStr:
			return val(ast.Int(int64(len([]byte(v.S)))))
		case ast.KBytes:
			return val(ast.Int(int64(len(v.B))))
		case ast.KSet:
			if v.HasDup() {
				return Res{Lenient: true, Why: "length of a set with duplicates"}
			}
			return val(ast.Int(int64(len(v.Set))))
		}
		return errRes("length on " + v.K.String())
	}
	return errRes("unknown unary")
}

// Binary evaluates one binary operator.
func Binary(code int, l, r ast.Term) Res {
	if (l.K == ast.KSet && l.HasDup()) || (r.K == ast.KSet && r.HasDup()) {
		// reachable only from the wire; the table is silent
		return Res{Lenient: true, Why: "operand set with duplicates"}
	}
	switch code {
	case ast.BLessThan, ast.BGreaterThan, ast.BLessOrEqual, ast.BGreaterOrEqual:
		var c int
		switch {
		case l.K == ast.KInt && r.K == ast.KInt:
			c = cmpI(l.I, r.I)
		case l.K == ast.KDate && r.K == ast.KDate:
			c = cmpU(l.D, r.D)
		default:
			return errRes("ordering on " + l.K.String() + "," + r.K.String())
		}
		var b bool
		switch code {
		case ast.BLessThan:
			b = c < 0
		case ast.BGreaterThan:
			b = c > 0
		case ast.BLessOrEqual:
			b = c <= 0
		case ast.BGreaterOrEqual:
			b = c >= 0
		}
		return val(ast.Bool(b))
	case ast.BEqual:
		if l.K != r.K {
			return errRes("== kind mismatch")
		}
		if l.K == ast.KVar {
			return errRes("== on variable")
		}
		return val(ast.Bool(l.Key() == r.Key()))
	case ast.BContains:
		if l.K == ast.KStr {
			if r.K != ast.KStr {
				return errRes("contains: string with non-string")
			}
			return val(ast.Bool(strings.Contains(l.S, r.S)))
		}
		if l.K != ast.KSet {
			return errRes("contains: left is neither set nor string")
		}
		lk, _ := l.ElemKind()
		if r.K == ast.KSet {
			rk, _ := r.ElemKind()
			if rk != lk && len(r.Set) > 0 && len(l.Set) > 0 {
				return Res{Lenient: true, NoTrue: true, Why: "inclusion between sets of different kinds"}
			}
			ls := setNorm(l)
			for _, e := range setNorm(r) {
				if !member(ls, e) {
					return val(ast.Bool(false))
				}
			}
			return val(ast.Bool(true))
		}
		if r.K == ast.KVar {
			return errRes("contains: variable")
		}
		if r.K != lk && len(l.Set) > 0 {
			return Res{Lenient: true, NoTrue: true, Why: "membership with element of another kind"}
		}
		return val(ast.Bool(member(setNorm(l), r)))
	case ast.BPrefix, ast.BSuffix, ast.BRegex:
		if l.K != ast.KStr || r.K != ast.KStr {
			return errRes("string op on non-strings")
		}
		switch code {
		case ast.BPrefix:
			return val(ast.Bool(strings.HasPrefix(l.S, r.S)))
		case ast.BSuffix:
			return val(ast.Bool(strings.HasSuffix(l.S, r.S)))
		}
		re, err := regexp.Compile(r.S)
		if err != nil {
			return errRes("invalid regex")
		}
		return val(ast.Bool(re.MatchString(l.S)))
	case ast.BAdd:
		if l.K == ast.KStr && r.K == ast.KStr {
			return val(ast.Str(l.S + r.S))
		}
		fallthrough
	case ast.BSub, ast.BMul, ast.BDiv:
		if l.K != ast.KInt || r.K != ast.KInt {
			return errRes("arithmetic on non-integers")
		}
		a, b := big.NewInt(l.I), big.NewInt(r.I)
		z := new(big.Int)
		switch code {
		case ast.BAdd:
			z.Add(a, b)
		case ast.BSub:
			z.Sub(a, b)
		case ast.BMul:
			z.Mul(a, b)
		case ast.BDiv:
			if r.I == 0 {
				return errRes("division by zero")
			}
			z.Quo(a, b) // truncating toward zero
		}
		if !fits(z) {
			return errRes("integer overflow")
		}
		return val(ast.Int(z.Int64()))
	case ast.BAnd, ast.BOr:
		if l.K != ast.KBool || r.K != ast.KBool {
			return errRes("boolean op on non-bools")
		}
		if code == ast.BAnd {
			return val(ast.Bool(l.Bo && r.Bo))
		}
		return val(ast.Bool(l.Bo || r.Bo))
	case ast.BIntersection, ast.BUnion:
		if l.K != ast.KSet || r.K != ast.KSet {
			return errRes("set op on non-sets")
		}
		lk, _ := l.ElemKind()
		rk, _ := r.ElemKind()
		if lk != rk && len(l.Set) > 0 && len(r.Set) > 0 {
			return Res{Lenient: true, Why: "set op between sets of different kinds"}
		}
		ls, rs := setNorm(l), setNorm(r)
		out := ast.Term{K: ast.KSet}
		if code == ast.BUnion {
			out.Set = append(out.Set, ls...)
			for _, e := range rs {
				if !member(ls, e) {
					out.Set = append(out.Set, e)
				}
			}
		} else {
			for _, e := range ls {
				if member(rs, e) {
					out.Set = append(out.Set, e)
				}
			}
		}
		return val(out)
	}
	return errRes("unknown binary")
}

func cmpI(a, b int64) int {
	switch {
	case a < b:
		return -1
	case a > b:
		return 1
	}
	return 0
}
func cmpU(a, b uint64) int {
	switch {
	case a < b:
		return -1
	case a > b:
		return 1
	}
	return 0
}

// EvalExpr evaluates a postfix sequence under an environment of bound variables.
func EvalExpr(e ast.Expr, env map[string]ast.Term) Res {
	stack := []ast.Term{}
	maxDepth := 0
	for i, op := range e {
		switch op.K {
		case ast.OpValue:
			v := *op.V
			if v.K == ast.KVar {
				b, ok := env[v.S]
				if !ok {
					return errRes("unbound variable")
				}
				v = b
			}
			stack = append(stack, v)
			if len(stack) > maxDepth {
				maxDepth = len(stack)
			}
		case ast.OpUnary:
			if len(stack) < 1 {
				return errRes("pop on empty stack")
			}
			r := Unary(op.C, stack[len(stack)-1])
			if r.Err {
				return r
			}
			if r.Lenient {
				// a lenient cell taints everything downstream
				return Res{Lenient: true, Why: r.Why}
			}
			stack[len(stack)-1] = r.V
		case ast.OpBinary:
			if len(stack) < 2 {
				return errRes("pop on empty stack")
			}
			r := Binary(op.C, stack[len(stack)-2], stack[len(stack)-1])
			if r.Err {
				return r
			}
			if r.Lenient {
				final := i == len(e)-1 && len(stack) == 2
				return Res{Lenient: true, NoTrue: r.NoTrue && final, Why: r.Why}
			}
			stack = stack[:len(stack)-2]
			stack = append(stack, r.V)
		default:
			return errRes("unknown op kind")
		}
	}
	if len(stack) != 1 {
		return errRes("final stack size != 1")
	}
	if maxDepth > 1100 {
		return errRes("stack deeper than any plausible bound")
	}
	if maxDepth > 900 {
		return Res{Lenient: true, Why: "stack depth near the unspecified bound"}
	}
	return val(stack[0])
}

// BytesEqual is exported for tests of the model itself.
func BytesEqual(a, b []byte) bool { return bytes.Equal(a, b) }
