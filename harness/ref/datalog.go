package ref

import (
	"sort"

	"verif/harness/ast"
)

// Facts is a set of ground facts keyed by canonical text.
type Facts map[string]ast.Pred

func (f Facts) Add(p ast.Pred) bool {
	k := p.Key()
	if _, ok := f[k]; ok {
		return false
	}
	f[k] = p
	return true
}

func (f Facts) Clone() Facts {
	g := make(Facts, len(f))
	for k, v := range f {
		g[k] = v
	}
	return g
}

func (f Facts) Keys() []string {
	ks := make([]string, 0, len(f))
	for k := range f {
		ks = append(ks, k)
	}
	sort.Strings(ks)
	return ks
}

// index by name/arity
type index map[string][]ast.Pred

func sig(p ast.Pred) string { return p.Name + "/" + string(rune('0'+len(p.Terms))) }

func buildIndex(f Facts) index {
	ix := index{}
	for _, p := range f {
		s := sig(p)
		ix[s] = append(ix[s], p)
	}
	return ix
}

// Flags describes what the reference saw while evaluating.
type Flags struct {
	Err     bool // some reachable complete substitution makes an expression an error, or a head variable is unbound
	Lenient bool // a lenient-zone expression was reached, or a non-boolean expression result: no verdict
	Invalid bool // rule with a head variable missing from the body matched
	// AnswersBeforeError: for queries - there were both answers and errors (order dependent in the library)
	Mixed bool
}

func (a *Flags) merge(b Flags) {
	a.Err = a.Err || b.Err
	a.Lenient = a.Lenient || b.Lenient
	a.Invalid = a.Invalid || b.Invalid
	a.Mixed = a.Mixed || b.Mixed
}

// unify extends sub so that pattern matches fact; returns false if impossible.
func unify(pat, fact ast.Pred, sub map[string]ast.Term) (map[string]ast.Term, bool) {
	if pat.Name != fact.Name || len(pat.Terms) != len(fact.Terms) {
		return nil, false
	}
	var out map[string]ast.Term
	for i, t := range pat.Terms {
		ft := fact.Terms[i]
		if t.K == ast.KVar {
			cur, ok := sub[t.S]
			if out != nil {
				if c2, ok2 := out[t.S]; ok2 {
					cur, ok = c2, true
				}
			}
			if ok {
				if cur.Key() != ft.Key() {
					return nil, false
				}
				continue
			}
			if out == nil {
				out = make(map[string]ast.Term, len(sub)+2)
				for k, v := range sub {
					out[k] = v
				}
			}
			out[t.S] = ft
			continue
		}
		if t.Key() != ft.Key() {
			return nil, false
		}
	}
	if out == nil {
		return sub, true
	}
	return out, true
}

// Answers computes the head instances of rule r over the facts, by recursive
// back-tracking over body atoms; expressions are evaluated in order on each
// complete substitution and stop at the first one that is not true.
func Answers(r ast.Rule, facts Facts, ix index) (Facts, Flags) {
	out := Facts{}
	var fl Flags
	if ix == nil {
		ix = buildIndex(facts)
	}
	nAnswers, nErrors := 0, 0
	var rec func(i int, sub map[string]ast.Term)
	rec = func(i int, sub map[string]ast.Term) {
		if i == len(r.Body) {
			for _, e := range r.Exprs {
				res := EvalExpr(e, sub)
				if res.Err {
					fl.Err = true
					nErrors++
					return
				}
				if res.Lenient {
					fl.Lenient = true
					return
				}
				if res.V.K != ast.KBool {
					// "not true" in the library; the table calls a non-boolean filter ill-typed: no verdict
					fl.Lenient = true
					return
				}
				if !res.V.Bo {
					return
				}
			}
			head := ast.Pred{Name: r.Head.Name, Terms: make([]ast.Term, len(r.Head.Terms))}
			for j, t := range r.Head.Terms {
				if t.K == ast.KVar {
					b, ok := sub[t.S]
					if !ok {
						fl.Invalid = true
						fl.Err = true
						nErrors++
						return
					}
					head.Terms[j] = b
				} else {
					head.Terms[j] = t
				}
			}
			nAnswers++
			out.Add(head)
			return
		}
		for _, f := range ix[sig(r.Body[i])] {
			if s2, ok := unify(r.Body[i], f, sub); ok {
				rec(i+1, s2)
			}
		}
	}
	rec(0, map[string]ast.Term{})
	if nAnswers > 0 && nErrors > 0 {
		fl.Mixed = true
	}
	return out, fl
}

// FixResult is the outcome of the reference fixpoint.
type FixResult struct {
	Facts  Facts
	Rounds int // number of rounds that produced at least one new fact
	Flags
	Diverged bool // stopped by the reference's own budget
}

// Fixpoint computes the least fixpoint by naive (Jacobi) iteration.
// budget bounds the number of facts the reference is willing to build.
func Fixpoint(facts []ast.Pred, rules []ast.Rule, budget int) FixResult {
	cur := Facts{}
	for _, f := range facts {
		cur.Add(f)
	}
	res := FixResult{}
	for {
		ix := buildIndex(cur)
		added := Facts{}
		for _, r := range rules {
			ans, fl := Answers(r, cur, ix)
			res.Flags.merge(fl)
			for k, v := range ans {
				if _, ok := cur[k]; !ok {
					added[k] = v
				}
			}
		}
		res.Flags.Mixed = false
		if res.Err {
			res.Facts = cur
			return res
		}
		if len(added) == 0 {
			break
		}
		res.Rounds++
		for k, v := range added {
			cur[k] = v
		}
		if len(cur) > budget {
			res.Diverged = true
			break
		}
	}
	res.Facts = cur
	return res
}
