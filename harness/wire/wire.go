// Package wire is R3: a hand-written reader/writer for the published Biscuit
// protobuf schema (field numbers transcribed by hand; it does not import the
// library's pb package) plus an independent signature-chain verifier built on
// crypto/ed25519 only.  The writer is deliberately permissive so that hostile
// but schema-valid messages can be manufactured.
package wire

import (
	"errors"
	"fmt"
)

// ---- low level ---------------------------------------------------------------------------

const (
	wtVarint  = 0
	wtFixed64 = 1
	wtBytes   = 2
	wtFixed32 = 5
)

func putVarint(b []byte, v uint64) []byte {
	for v >= 0x80 {
		b = append(b, byte(v)|0x80)
		v >>= 7
	}
	return append(b, byte(v))
}

func putTag(b []byte, num int, wt int) []byte { return putVarint(b, uint64(num)<<3|uint64(wt)) }

func putBytesField(b []byte, num int, v []byte) []byte {
	b = putTag(b, num, wtBytes)
	b = putVarint(b, uint64(len(v)))
	return append(b, v...)
}

func putVarintField(b []byte, num int, v uint64) []byte {
	b = putTag(b, num, wtVarint)
	return putVarint(b, v)
}

type field struct {
	num int
	wt  int
	v   uint64 // varint / fixed
	b   []byte // length-delimited
}

var errTrunc = errors.New("wire: truncated or malformed message")

func getVarint(b []byte) (uint64, int) {
	var v uint64
	for i := 0; i < len(b) && i < 10; i++ {
		c := b[i]
		if i == 9 && c > 1 {
			return 0, -1
		}
		v |= uint64(c&0x7f) << (7 * uint(i))
		if c < 0x80 {
			return v, i + 1
		}
	}
	return 0, -1
}

func parseFields(b []byte) ([]field, error) {
	out := []field{}
	for len(b) > 0 {
		tag, n := getVarint(b)
		if n < 0 {
			return nil, errTrunc
		}
		b = b[n:]
		num, wt := int(tag>>3), int(tag&7)
		if num == 0 || tag>>3 > 1<<29-1 {
			return nil, errTrunc
		}
		f := field{num: num, wt: wt}
		switch wt {
		case wtVarint:
			v, n := getVarint(b)
			if n < 0 {
				return nil, errTrunc
			}
			f.v = v
			b = b[n:]
		case wtFixed64:
			if len(b) < 8 {
				return nil, errTrunc
			}
			b = b[8:]
		case wtFixed32:
			if len(b) < 4 {
				return nil, errTrunc
			}
			b = b[4:]
		case wtBytes:
			l, n := getVarint(b)
			if n < 0 || uint64(len(b)-n) < l {
				return nil, errTrunc
			}
			f.b = b[n : n+int(l)]
			b = b[n+int(l):]
		default:
			return nil, errTrunc // groups are not used by the schema
		}
		out = append(out, f)
	}
	return out, nil
}

// ---- messages ----------------------------------------------------------------------------

type Signed struct {
	Block  []byte
	HasAlg bool
	Alg    uint64
	Key    []byte
	HasKey bool
	Sig    []byte
	// RawNextKey, when non-nil, replaces the encoded nextKey sub-message.
	Extra []byte
}

const (
	ProofNone   = 0
	ProofSecret = 1
	ProofFinal  = 2
)

type Token struct {
	RootKeyID *uint32
	Authority Signed
	Blocks    []Signed
	ProofKind int
	Proof     []byte
	Extra     []byte // raw bytes appended at top level (unknown fields)
	// NonCanonical is set by Decode when the encoding deviates from what the writer produces
	// (unknown fields, repeated singular fields, wrong wire types).
	NonCanonical bool
}

func (s Signed) encode() []byte {
	var b []byte
	b = putBytesField(b, 1, s.Block)
	var k []byte
	if s.HasAlg {
		k = putVarintField(k, 1, s.Alg)
	}
	if s.HasKey {
		k = putBytesField(k, 2, s.Key)
	}
	b = putBytesField(b, 2, k)
	b = putBytesField(b, 3, s.Sig)
	return append(b, s.Extra...)
}

func (t *Token) Encode() []byte {
	var b []byte
	if t.RootKeyID != nil {
		b = putVarintField(b, 1, uint64(*t.RootKeyID))
	}
	b = putBytesField(b, 2, t.Authority.encode())
	for _, s := range t.Blocks {
		b = putBytesField(b, 3, s.encode())
	}
	var p []byte
	switch t.ProofKind {
	case ProofSecret:
		p = putBytesField(p, 1, t.Proof)
	case ProofFinal:
		p = putBytesField(p, 2, t.Proof)
	}
	b = putBytesField(b, 4, p)
	return append(b, t.Extra...)
}

func decodeSigned(b []byte, nc *bool) (Signed, error) {
	fs, err := parseFields(b)
	if err != nil {
		return Signed{}, err
	}
	var s Signed
	seen := map[int]int{}
	for _, f := range fs {
		seen[f.num]++
		switch {
		case f.num == 1 && f.wt == wtBytes:
			s.Block = f.b
		case f.num == 2 && f.wt == wtBytes:
			ks, err := parseFields(f.b)
			if err != nil {
				return Signed{}, err
			}
			kseen := map[int]int{}
			for _, k := range ks {
				kseen[k.num]++
				switch {
				case k.num == 1 && k.wt == wtVarint:
					s.HasAlg, s.Alg = true, k.v
				case k.num == 2 && k.wt == wtBytes:
					s.HasKey, s.Key = true, k.b
				default:
					*nc = true
				}
			}
			if kseen[1] > 1 || kseen[2] > 1 {
				*nc = true
			}
		case f.num == 3 && f.wt == wtBytes:
			s.Sig = f.b
		default:
			*nc = true
		}
	}
	if seen[1] == 0 || seen[2] == 0 || seen[3] == 0 || !s.HasAlg || !s.HasKey {
		return Signed{}, errors.New("wire: missing required field in SignedBlock")
	}
	if seen[1] > 1 || seen[2] > 1 || seen[3] > 1 {
		*nc = true
	}
	return s, nil
}

// Decode parses a serialized token envelope.
func Decode(b []byte) (*Token, error) {
	fs, err := parseFields(b)
	if err != nil {
		return nil, err
	}
	t := &Token{}
	seen := map[int]int{}
	for _, f := range fs {
		seen[f.num]++
		switch {
		case f.num == 1 && f.wt == wtVarint:
			if f.v > 0xffffffff {
				t.NonCanonical = true
			}
			id := uint32(f.v)
			t.RootKeyID = &id
		case f.num == 2 && f.wt == wtBytes:
			s, err := decodeSigned(f.b, &t.NonCanonical)
			if err != nil {
				return nil, err
			}
			t.Authority = s
		case f.num == 3 && f.wt == wtBytes:
			s, err := decodeSigned(f.b, &t.NonCanonical)
			if err != nil {
				return nil, err
			}
			t.Blocks = append(t.Blocks, s)
		case f.num == 4 && f.wt == wtBytes:
			ps, err := parseFields(f.b)
			if err != nil {
				return nil, err
			}
			if len(ps) > 1 {
				t.NonCanonical = true
			}
			for _, p := range ps {
				switch {
				case p.num == 1 && p.wt == wtBytes:
					t.ProofKind, t.Proof = ProofSecret, p.b
				case p.num == 2 && p.wt == wtBytes:
					t.ProofKind, t.Proof = ProofFinal, p.b
				default:
					t.NonCanonical = true
				}
			}
		default:
			t.NonCanonical = true
		}
	}
	if seen[2] == 0 || seen[4] == 0 {
		return nil, errors.New("wire: missing required field in Biscuit")
	}
	if seen[1] > 1 || seen[2] > 1 || seen[4] > 1 {
		t.NonCanonical = true
	}
	return t, nil
}

// ---- block content -----------------------------------------------------------------------

const (
	TVariable = 1
	TInteger  = 2
	TString   = 3
	TDate     = 4
	TBytes    = 5
	TBool     = 6
	TSet      = 7
)

type Term struct {
	Tag int // 0 = empty oneof
	U   uint64
	I   int64
	B   []byte
	Bo  bool
	Set []Term
}

type Pred struct {
	Name   uint64
	NoName bool // omit the required name field
	Terms  []Term
}

const (
	OValue  = 1
	OUnary  = 2
	OBinary = 3
)

type Op struct {
	Tag    int // 0 = empty oneof
	Val    Term
	Kind   uint64
	NoKind bool // omit the required kind field
}

type Expr []Op

type Rule struct {
	Head   Pred
	NoHead bool
	Body   []Pred
	Exprs  []Expr
}

type Check []Rule

type Block struct {
	Symbols []string
	Context *string
	Version *uint32
	Facts   []Pred
	Rules   []Rule
	Checks  []Check
	Extra   []byte
	// RawFacts are raw FactV2 message bodies (hostile encodings, e.g. a fact without predicate).
	RawFacts     [][]byte
	NonCanonical bool
}

func (t Term) encode() []byte {
	var b []byte
	switch t.Tag {
	case TVariable:
		b = putVarintField(b, 1, t.U)
	case TInteger:
		b = putVarintField(b, 2, uint64(t.I))
	case TString:
		b = putVarintField(b, 3, t.U)
	case TDate:
		b = putVarintField(b, 4, t.U)
	case TBytes:
		b = putBytesField(b, 5, t.B)
	case TBool:
		v := uint64(0)
		if t.Bo {
			v = 1
		}
		b = putVarintField(b, 6, v)
	case TSet:
		var s []byte
		for _, e := range t.Set {
			s = putBytesField(s, 1, e.encode())
		}
		b = putBytesField(b, 7, s)
	}
	return b
}

func (p Pred) encode() []byte {
	var b []byte
	if !p.NoName {
		b = putVarintField(b, 1, p.Name)
	}
	for _, t := range p.Terms {
		b = putBytesField(b, 2, t.encode())
	}
	return b
}

func (e Expr) encode() []byte {
	var b []byte
	for _, o := range e {
		var ob []byte
		switch o.Tag {
		case OValue:
			ob = putBytesField(ob, 1, o.Val.encode())
		case OUnary:
			var k []byte
			if !o.NoKind {
				k = putVarintField(k, 1, o.Kind)
			}
			ob = putBytesField(ob, 2, k)
		case OBinary:
			var k []byte
			if !o.NoKind {
				k = putVarintField(k, 1, o.Kind)
			}
			ob = putBytesField(ob, 3, k)
		}
		b = putBytesField(b, 1, ob)
	}
	return b
}

func (r Rule) encode() []byte {
	var b []byte
	if !r.NoHead {
		b = putBytesField(b, 1, r.Head.encode())
	}
	for _, p := range r.Body {
		b = putBytesField(b, 2, p.encode())
	}
	for _, e := range r.Exprs {
		b = putBytesField(b, 3, e.encode())
	}
	return b
}

func (c Check) encode() []byte {
	var b []byte
	for _, q := range c {
		b = putBytesField(b, 1, q.encode())
	}
	return b
}

func (bl *Block) Encode() []byte {
	var b []byte
	for _, s := range bl.Symbols {
		b = putBytesField(b, 1, []byte(s))
	}
	if bl.Context != nil {
		b = putBytesField(b, 2, []byte(*bl.Context))
	}
	if bl.Version != nil {
		b = putVarintField(b, 3, uint64(*bl.Version))
	}
	for _, f := range bl.Facts {
		b = putBytesField(b, 4, putBytesField(nil, 1, f.encode()))
	}
	for _, r := range bl.Rules {
		b = putBytesField(b, 5, r.encode())
	}
	for _, c := range bl.Checks {
		b = putBytesField(b, 6, c.encode())
	}
	for _, raw := range bl.RawFacts {
		b = putBytesField(b, 4, raw)
	}
	return append(b, bl.Extra...)
}

func decodeTerm(b []byte, nc *bool, depth int) (Term, error) {
	fs, err := parseFields(b)
	if err != nil {
		return Term{}, err
	}
	var t Term
	if len(fs) > 1 {
		*nc = true
	}
	for _, f := range fs {
		switch {
		case f.num == 1 && f.wt == wtVarint:
			if f.v > 0xffffffff {
				*nc = true
			}
			t = Term{Tag: TVariable, U: uint64(uint32(f.v))}
		case f.num == 2 && f.wt == wtVarint:
			t = Term{Tag: TInteger, I: int64(f.v)}
		case f.num == 3 && f.wt == wtVarint:
			t = Term{Tag: TString, U: f.v}
		case f.num == 4 && f.wt == wtVarint:
			t = Term{Tag: TDate, U: f.v}
		case f.num == 5 && f.wt == wtBytes:
			t = Term{Tag: TBytes, B: f.b}
		case f.num == 6 && f.wt == wtVarint:
			t = Term{Tag: TBool, Bo: f.v != 0}
		case f.num == 7 && f.wt == wtBytes:
			if depth > 8 {
				return Term{}, errors.New("wire: set nesting too deep")
			}
			es, err := parseFields(f.b)
			if err != nil {
				return Term{}, err
			}
			t = Term{Tag: TSet}
			for _, e := range es {
				if e.num != 1 || e.wt != wtBytes {
					*nc = true
					continue
				}
				x, err := decodeTerm(e.b, nc, depth+1)
				if err != nil {
					return Term{}, err
				}
				t.Set = append(t.Set, x)
			}
		default:
			*nc = true
		}
	}
	return t, nil
}

func decodePred(b []byte, nc *bool) (Pred, error) {
	fs, err := parseFields(b)
	if err != nil {
		return Pred{}, err
	}
	var p Pred
	hasName := 0
	for _, f := range fs {
		switch {
		case f.num == 1 && f.wt == wtVarint:
			p.Name = f.v
			hasName++
		case f.num == 2 && f.wt == wtBytes:
			t, err := decodeTerm(f.b, nc, 0)
			if err != nil {
				return Pred{}, err
			}
			p.Terms = append(p.Terms, t)
		default:
			*nc = true
		}
	}
	if hasName == 0 {
		return Pred{}, errors.New("wire: predicate without name")
	}
	if hasName > 1 {
		*nc = true
	}
	return p, nil
}

func decodeExpr(b []byte, nc *bool) (Expr, error) {
	fs, err := parseFields(b)
	if err != nil {
		return nil, err
	}
	e := Expr{}
	for _, f := range fs {
		if f.num != 1 || f.wt != wtBytes {
			*nc = true
			continue
		}
		os, err := parseFields(f.b)
		if err != nil {
			return nil, err
		}
		if len(os) > 1 {
			*nc = true
		}
		var op Op
		for _, o := range os {
			switch {
			case o.num == 1 && o.wt == wtBytes:
				t, err := decodeTerm(o.b, nc, 0)
				if err != nil {
					return nil, err
				}
				op = Op{Tag: OValue, Val: t}
			case (o.num == 2 || o.num == 3) && o.wt == wtBytes:
				ks, err := parseFields(o.b)
				if err != nil {
					return nil, err
				}
				op = Op{Tag: o.num, NoKind: true}
				for _, k := range ks {
					if k.num == 1 && k.wt == wtVarint {
						op.Kind, op.NoKind = k.v, false
					} else {
						*nc = true
					}
				}
				if op.NoKind {
					return nil, errors.New("wire: operator without kind")
				}
			default:
				*nc = true
			}
		}
		e = append(e, op)
	}
	return e, nil
}

func decodeRule(b []byte, nc *bool) (Rule, error) {
	fs, err := parseFields(b)
	if err != nil {
		return Rule{}, err
	}
	var r Rule
	heads := 0
	for _, f := range fs {
		switch {
		case f.num == 1 && f.wt == wtBytes:
			p, err := decodePred(f.b, nc)
			if err != nil {
				return Rule{}, err
			}
			r.Head = p
			heads++
		case f.num == 2 && f.wt == wtBytes:
			p, err := decodePred(f.b, nc)
			if err != nil {
				return Rule{}, err
			}
			r.Body = append(r.Body, p)
		case f.num == 3 && f.wt == wtBytes:
			e, err := decodeExpr(f.b, nc)
			if err != nil {
				return Rule{}, err
			}
			r.Exprs = append(r.Exprs, e)
		default:
			*nc = true
		}
	}
	if heads == 0 {
		return Rule{}, errors.New("wire: rule without head")
	}
	if heads > 1 {
		*nc = true
	}
	return r, nil
}

// DecodeBlock parses a serialized Block message.
func DecodeBlock(b []byte) (*Block, error) {
	fs, err := parseFields(b)
	if err != nil {
		return nil, err
	}
	bl := &Block{}
	nc := &bl.NonCanonical
	seen := map[int]int{}
	for _, f := range fs {
		seen[f.num]++
		switch {
		case f.num == 1 && f.wt == wtBytes:
			bl.Symbols = append(bl.Symbols, string(f.b))
		case f.num == 2 && f.wt == wtBytes:
			s := string(f.b)
			bl.Context = &s
		case f.num == 3 && f.wt == wtVarint:
			if f.v > 0xffffffff {
				*nc = true
			}
			v := uint32(f.v)
			bl.Version = &v
		case f.num == 4 && f.wt == wtBytes:
			ps, err := parseFields(f.b)
			if err != nil {
				return nil, err
			}
			n := 0
			for _, p := range ps {
				if p.num == 1 && p.wt == wtBytes {
					pr, err := decodePred(p.b, nc)
					if err != nil {
						return nil, err
					}
					bl.Facts = append(bl.Facts, pr)
					n++
				} else {
					*nc = true
				}
			}
			if n != 1 {
				if n == 0 {
					return nil, errors.New("wire: fact without predicate")
				}
				*nc = true
			}
		case f.num == 5 && f.wt == wtBytes:
			r, err := decodeRule(f.b, nc)
			if err != nil {
				return nil, err
			}
			bl.Rules = append(bl.Rules, r)
		case f.num == 6 && f.wt == wtBytes:
			qs, err := parseFields(f.b)
			if err != nil {
				return nil, err
			}
			c := Check{}
			for _, q := range qs {
				if q.num != 1 || q.wt != wtBytes {
					*nc = true
					continue
				}
				r, err := decodeRule(q.b, nc)
				if err != nil {
					return nil, err
				}
				c = append(c, r)
			}
			bl.Checks = append(bl.Checks, c)
		default:
			*nc = true
		}
	}
	if seen[2] > 1 || seen[3] > 1 {
		*nc = true
	}
	return bl, nil
}

func (t Term) String() string {
	switch t.Tag {
	case TVariable:
		return fmt.Sprintf("var#%d", t.U)
	case TInteger:
		return fmt.Sprintf("%d", t.I)
	case TString:
		return fmt.Sprintf("str#%d", t.U)
	case TDate:
		return fmt.Sprintf("@%d", t.U)
	case TBytes:
		return fmt.Sprintf("hex:%x", t.B)
	case TBool:
		return fmt.Sprint(t.Bo)
	case TSet:
		return fmt.Sprint(t.Set)
	}
	return "<empty>"
}

// ---- AuthorizerPolicies ------------------------------------------------------------------

type Policy struct {
	Queries []Rule
	Kind    uint64
	NoKind  bool
}

type Policies struct {
	Symbols  []string
	Version  *uint32
	Facts    []Pred
	Rules    []Rule
	Checks   []Check
	Policies []Policy
	Extra    []byte
}

func (p *Policies) Encode() []byte {
	var b []byte
	for _, s := range p.Symbols {
		b = putBytesField(b, 1, []byte(s))
	}
	if p.Version != nil {
		b = putVarintField(b, 2, uint64(*p.Version))
	}
	for _, f := range p.Facts {
		b = putBytesField(b, 3, putBytesField(nil, 1, f.encode()))
	}
	for _, r := range p.Rules {
		b = putBytesField(b, 4, r.encode())
	}
	for _, c := range p.Checks {
		b = putBytesField(b, 5, c.encode())
	}
	for _, pol := range p.Policies {
		var pb []byte
		for _, q := range pol.Queries {
			pb = putBytesField(pb, 1, q.encode())
		}
		if !pol.NoKind {
			pb = putVarintField(pb, 2, pol.Kind)
		}
		b = putBytesField(b, 6, pb)
	}
	return append(b, p.Extra...)
}

// RawField helpers for hostile encodings.
func RawBytesField(num int, v []byte) []byte  { return putBytesField(nil, num, v) }
func RawVarintField(num int, v uint64) []byte { return putVarintField(nil, num, v) }

// EncodeTerm / EncodePred / EncodeRule expose the sub-encoders.
func EncodeTerm(t Term) []byte { return t.encode() }
func EncodePred(p Pred) []byte { return p.encode() }
func EncodeRule(r Rule) []byte { return r.encode() }
