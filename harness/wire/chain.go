package wire

import (
	"bytes"
	"crypto/ed25519"
	"encoding/binary"
	"errors"
	"fmt"

	"verif/harness/ast"
)

// DefaultSymbols: the harness's own transcription of the published default table.
var DefaultSymbols = []string{
	"read", "write", "resource", "operation", "right", "time", "role", "owner", "tenant", "namespace",
	"user", "team", "service", "admin", "email", "group", "member", "ip_address", "client", "client_ip",
	"domain", "path", "version", "cluster", "node", "hostname", "nonce", "query",
}

const Offset = 1024

// ---- chain verification (published rule, crypto/ed25519 only) ------------------------------

func payload(s Signed) []byte {
	b := append([]byte{}, s.Block...)
	var a [4]byte
	binary.LittleEndian.PutUint32(a[:], uint32(s.Alg))
	b = append(b, a[:]...)
	return append(b, s.Key...)
}

// VerifyChain decides whether the envelope is an unbroken chain rooted at root.
// It returns nil when: the authority block is signed by root over block||alg||nextKey,
// block i+1 is signed by block i's next key, all algorithms are Ed25519 (0), all keys are
// 32 bytes and signatures 64 bytes, and the proof is either the 32-byte secret of the last
// next key or a 64-byte signature by the last next key over block||alg||nextKey||signature
// of the last block.
func VerifyChain(t *Token, root ed25519.PublicKey) error {
	if len(root) != ed25519.PublicKeySize {
		return errors.New("chain: root key size")
	}
	cur := root
	all := append([]Signed{t.Authority}, t.Blocks...)
	for i, s := range all {
		if s.Alg != 0 {
			return fmt.Errorf("chain: block %d: unsupported algorithm %d", i, s.Alg)
		}
		if len(s.Key) != ed25519.PublicKeySize {
			return fmt.Errorf("chain: block %d: next key size %d", i, len(s.Key))
		}
		if len(s.Sig) != ed25519.SignatureSize {
			return fmt.Errorf("chain: block %d: signature size %d", i, len(s.Sig))
		}
		if !ed25519.Verify(cur, payload(s), s.Sig) {
			return fmt.Errorf("chain: block %d: bad signature", i)
		}
		cur = s.Key
	}
	last := all[len(all)-1]
	switch t.ProofKind {
	case ProofSecret:
		if len(t.Proof) != ed25519.SeedSize {
			return errors.New("chain: next secret size")
		}
		pub := ed25519.NewKeyFromSeed(t.Proof).Public().(ed25519.PublicKey)
		if !bytes.Equal(pub, cur) {
			return errors.New("chain: next secret does not match the last announced key")
		}
	case ProofFinal:
		if len(t.Proof) != ed25519.SignatureSize {
			return errors.New("chain: final signature size")
		}
		msg := append(payload(last), last.Sig...)
		if !ed25519.Verify(cur, msg, t.Proof) {
			return errors.New("chain: bad final signature")
		}
	default:
		return errors.New("chain: no proof")
	}
	return nil
}

// Sign produces a SignedBlock for block bytes under signer, announcing next.
func Sign(signer ed25519.PrivateKey, block []byte, next ed25519.PublicKey) Signed {
	s := Signed{Block: block, HasAlg: true, Alg: 0, HasKey: true, Key: append([]byte{}, next...)}
	s.Sig = ed25519.Sign(signer, payload(s))
	return s
}

// SealSig computes the final signature over the last block with the last next secret.
func SealSig(lastSecret ed25519.PrivateKey, last Signed) []byte {
	return ed25519.Sign(lastSecret, append(payload(last), last.Sig...))
}

// ---- symbol resolution ---------------------------------------------------------------------

type Table struct {
	Syms []string // accumulated per-block tables, index 0 = 1024
}

func (t *Table) Resolve(i uint64) (string, bool) {
	if i < Offset {
		if i < uint64(len(DefaultSymbols)) {
			return DefaultSymbols[i], true
		}
		return "", false
	}
	j := i - Offset
	if j < uint64(len(t.Syms)) {
		return t.Syms[j], true
	}
	return "", false
}

// Intern returns the index of s, adding it to the table (and to *added) if it is new.
func (t *Table) Intern(s string, added *[]string) uint64 {
	for i, d := range DefaultSymbols {
		if d == s {
			return uint64(i)
		}
	}
	for i, d := range t.Syms {
		if d == s {
			return uint64(Offset + i)
		}
	}
	t.Syms = append(t.Syms, s)
	if added != nil {
		*added = append(*added, s)
	}
	return uint64(Offset + len(t.Syms) - 1)
}

func (t *Table) term(w Term) (ast.Term, error) {
	switch w.Tag {
	case TVariable:
		n, ok := t.Resolve(w.U)
		if !ok {
			return ast.Term{}, fmt.Errorf("variable index %d not resolvable", w.U)
		}
		return ast.Var(n), nil
	case TInteger:
		return ast.Int(w.I), nil
	case TString:
		n, ok := t.Resolve(w.U)
		if !ok {
			return ast.Term{}, fmt.Errorf("string index %d not resolvable", w.U)
		}
		return ast.Str(n), nil
	case TDate:
		return ast.Date(w.U), nil
	case TBytes:
		return ast.Bytes(w.B), nil
	case TBool:
		return ast.Bool(w.Bo), nil
	case TSet:
		out := ast.Term{K: ast.KSet}
		for _, e := range w.Set {
			x, err := t.term(e)
			if err != nil {
				return ast.Term{}, err
			}
			out.Set = append(out.Set, x)
		}
		return out, nil
	}
	return ast.Term{}, errors.New("empty term")
}

func (t *Table) pred(w Pred) (ast.Pred, error) {
	n, ok := t.Resolve(w.Name)
	if !ok {
		return ast.Pred{}, fmt.Errorf("predicate name index %d not resolvable", w.Name)
	}
	p := ast.Pred{Name: n, Terms: []ast.Term{}}
	for _, x := range w.Terms {
		a, err := t.term(x)
		if err != nil {
			return ast.Pred{}, err
		}
		p.Terms = append(p.Terms, a)
	}
	return p, nil
}

func (t *Table) rule(w Rule) (ast.Rule, error) {
	h, err := t.pred(w.Head)
	if err != nil {
		return ast.Rule{}, err
	}
	r := ast.Rule{Head: h}
	for _, b := range w.Body {
		p, err := t.pred(b)
		if err != nil {
			return ast.Rule{}, err
		}
		r.Body = append(r.Body, p)
	}
	for _, e := range w.Exprs {
		x := ast.Expr{}
		for _, o := range e {
			switch o.Tag {
			case OValue:
				v, err := t.term(o.Val)
				if err != nil {
					return ast.Rule{}, err
				}
				x = append(x, ast.OV(v))
			case OUnary:
				if o.Kind > 2 {
					return ast.Rule{}, fmt.Errorf("unknown unary kind %d", o.Kind)
				}
				x = append(x, ast.OU(int(o.Kind)))
			case OBinary:
				if o.Kind >= ast.NumBinary {
					return ast.Rule{}, fmt.Errorf("unknown binary kind %d", o.Kind)
				}
				x = append(x, ast.OB(int(o.Kind)))
			default:
				return ast.Rule{}, errors.New("empty op")
			}
		}
		r.Exprs = append(r.Exprs, x)
	}
	return r, nil
}

// ResolveBlock turns a decoded block into builder-level content. The table must already
// include this block's own symbols (see ResolveToken).
func (t *Table) ResolveBlock(w *Block) (ast.Block, error) {
	out := ast.Block{}
	if w.Context != nil {
		out.Context = *w.Context
	}
	for _, f := range w.Facts {
		p, err := t.pred(f)
		if err != nil {
			return out, err
		}
		out.Facts = append(out.Facts, p)
	}
	for _, r := range w.Rules {
		x, err := t.rule(r)
		if err != nil {
			return out, err
		}
		out.Rules = append(out.Rules, x)
	}
	for _, c := range w.Checks {
		ch := ast.Check{}
		for _, q := range c {
			x, err := t.rule(q)
			if err != nil {
				return out, err
			}
			ch.Queries = append(ch.Queries, x)
		}
		out.Checks = append(out.Checks, ch)
	}
	return out, nil
}

// Decoded is a fully decoded token.
type Decoded struct {
	Env     *Token
	WBlocks []*Block
	Blocks  []ast.Block
	// SymbolRuleErrors lists violations of the published symbol rules.
	SymbolRuleErrors []string
}

// DecodeToken decodes envelope and blocks and resolves every block against the default
// table plus the tables of blocks 0..i, checking the published symbol rules on the way.
func DecodeToken(b []byte) (*Decoded, error) {
	env, err := Decode(b)
	if err != nil {
		return nil, err
	}
	d := &Decoded{Env: env}
	tab := &Table{}
	all := append([]Signed{env.Authority}, env.Blocks...)
	for i, s := range all {
		wb, err := DecodeBlock(s.Block)
		if err != nil {
			return nil, fmt.Errorf("block %d: %w", i, err)
		}
		d.WBlocks = append(d.WBlocks, wb)
		for _, sym := range wb.Symbols {
			isDefault := false
			for _, ds := range DefaultSymbols {
				if ds == sym {
					isDefault = true
				}
			}
			if isDefault {
				d.SymbolRuleErrors = append(d.SymbolRuleErrors, fmt.Sprintf("block %d re-declares default symbol %q", i, sym))
			}
			for _, old := range tab.Syms {
				if old == sym {
					d.SymbolRuleErrors = append(d.SymbolRuleErrors, fmt.Sprintf("block %d re-declares earlier symbol %q", i, sym))
				}
			}
			tab.Syms = append(tab.Syms, sym)
		}
		ab, err := tab.ResolveBlock(wb)
		if err != nil {
			return nil, fmt.Errorf("block %d: %w", i, err)
		}
		d.Blocks = append(d.Blocks, ab)
	}
	return d, nil
}

// ---- ast -> wire ---------------------------------------------------------------------------

func (t *Table) WTerm(a ast.Term, added *[]string) Term {
	switch a.K {
	case ast.KVar:
		return Term{Tag: TVariable, U: t.Intern(a.S, added)}
	case ast.KInt:
		return Term{Tag: TInteger, I: a.I}
	case ast.KStr:
		return Term{Tag: TString, U: t.Intern(a.S, added)}
	case ast.KDate:
		return Term{Tag: TDate, U: a.D}
	case ast.KBytes:
		return Term{Tag: TBytes, B: a.B}
	case ast.KBool:
		return Term{Tag: TBool, Bo: a.Bo}
	case ast.KSet:
		w := Term{Tag: TSet}
		for _, e := range a.Set {
			w.Set = append(w.Set, t.WTerm(e, added))
		}
		return w
	}
	return Term{}
}

func (t *Table) WPred(p ast.Pred, added *[]string) Pred {
	w := Pred{}
	for _, x := range p.Terms {
		w.Terms = append(w.Terms, t.WTerm(x, added))
	}
	w.Name = t.Intern(p.Name, added)
	return w
}

func (t *Table) WRule(r ast.Rule, added *[]string) Rule {
	w := Rule{}
	for _, b := range r.Body {
		w.Body = append(w.Body, t.WPred(b, added))
	}
	for _, e := range r.Exprs {
		x := Expr{}
		for _, o := range e {
			switch o.K {
			case ast.OpValue:
				x = append(x, Op{Tag: OValue, Val: t.WTerm(*o.V, added)})
			case ast.OpUnary:
				x = append(x, Op{Tag: OUnary, Kind: uint64(o.C)})
			case ast.OpBinary:
				x = append(x, Op{Tag: OBinary, Kind: uint64(o.C)})
			}
		}
		w.Exprs = append(w.Exprs, x)
	}
	w.Head = t.WPred(r.Head, added)
	return w
}

// WBlock encodes builder-level content as a spec-conformant block (version 3) against the
// running table; the block's symbol list holds exactly the symbols that were new.
func (t *Table) WBlock(b ast.Block) *Block {
	added := []string{}
	w := &Block{}
	for _, f := range b.Facts {
		w.Facts = append(w.Facts, t.WPred(f, &added))
	}
	for _, r := range b.Rules {
		w.Rules = append(w.Rules, t.WRule(r, &added))
	}
	for _, c := range b.Checks {
		ch := Check{}
		for _, q := range c.Queries {
			ch = append(ch, t.WRule(q, &added))
		}
		w.Checks = append(w.Checks, ch)
	}
	w.Symbols = added
	ctx := b.Context
	w.Context = &ctx
	v := uint32(3)
	w.Version = &v
	return w
}

// ---- building whole tokens -----------------------------------------------------------------

// KeySource hands out deterministic key pairs.
type KeySource func() (ed25519.PublicKey, ed25519.PrivateKey)

// BuildToken writes and signs a spec-conformant chain for the given raw block bytes.
// It returns the envelope and the last next secret (for appending / sealing).
func BuildToken(root ed25519.PrivateKey, blocks [][]byte, keys KeySource, keyID *uint32) (*Token, ed25519.PrivateKey) {
	t := &Token{RootKeyID: keyID}
	signer := root
	for i, b := range blocks {
		pub, priv := keys()
		s := Sign(signer, b, pub)
		if i == 0 {
			t.Authority = s
		} else {
			t.Blocks = append(t.Blocks, s)
		}
		signer = priv
	}
	t.ProofKind = ProofSecret
	t.Proof = signer.Seed()
	return t, signer
}

// Clone deep-copies an envelope.
func (t *Token) Clone() *Token {
	c := &Token{ProofKind: t.ProofKind, Proof: append([]byte{}, t.Proof...), Extra: append([]byte{}, t.Extra...)}
	if t.RootKeyID != nil {
		id := *t.RootKeyID
		c.RootKeyID = &id
	}
	c.Authority = t.Authority.Clone()
	for _, s := range t.Blocks {
		c.Blocks = append(c.Blocks, s.Clone())
	}
	return c
}

func (s Signed) Clone() Signed {
	return Signed{Block: append([]byte{}, s.Block...), HasAlg: s.HasAlg, Alg: s.Alg, HasKey: s.HasKey, Key: append([]byte{}, s.Key...), Sig: append([]byte{}, s.Sig...), Extra: append([]byte{}, s.Extra...)}
}

// All returns authority + blocks.
func (t *Token) All() []Signed { return append([]Signed{t.Authority}, t.Blocks...) }

// SetAll replaces authority + blocks.
func (t *Token) SetAll(all []Signed) {
	t.Authority = all[0]
	t.Blocks = append([]Signed{}, all[1:]...)
}
