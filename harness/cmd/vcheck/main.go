// vcheck: driver and worker in one binary (the driver re-executes the binary as workers).
package main

import (
	"encoding/json"
	"fmt"
	"os"
	"strconv"

	"verif/harness/core"
	_ "verif/harness/props"
)

func seed() int64 {
	if s, err := strconv.ParseInt(os.Getenv("VERIF_SEED"), 10, 64); err == nil {
		return s
	}
	return 1
}

func main() {
	if len(os.Args) < 2 {
		fmt.Fprintln(os.Stderr, "usage: vcheck run|worker|replay|needs-race|list ...")
		os.Exit(64)
	}
	switch os.Args[1] {
	case "worker":
		os.Exit(core.WorkerMain(os.Args[2:]))
	case "list":
		for _, id := range core.IDs() {
			fmt.Println(id)
		}
	case "sizes":
		// markdown rows: id | level | quick cases | thorough cases | cases under the race detector (quick/thorough)
		for _, id := range core.IDs() {
			p := core.Lookup(id)
			race := func(t string) string {
				if p.RaceFrom == nil || p.RaceFrom(t) < 0 {
					return "-"
				}
				return fmt.Sprint(p.NumCases(t) - p.RaceFrom(t))
			}
			fmt.Printf("| %s | %s | %d | %d | %s / %s |\n", id, p.Level, p.NumCases("quick"), p.NumCases("thorough"), race("quick"), race("thorough"))
		}
	case "needs-race":
		p := core.Lookup(os.Args[2])
		if p != nil && p.RaceFrom != nil && p.RaceFrom(os.Args[3]) >= 0 {
			fmt.Println("yes")
		} else {
			fmt.Println("no")
		}
	case "run", "replay":
		verifDir := os.Getenv("VERIF_DIR")
		if verifDir == "" {
			verifDir = "/verif"
		}
		work := os.Getenv("VCHECK_WORK")
		if work == "" {
			var err error
			work, err = os.MkdirTemp("", "vcheck-work-")
			if err != nil {
				panic(err)
			}
			defer os.RemoveAll(work)
		}
		self, _ := os.Executable()
		d := &core.Driver{Bin: self, RaceBin: os.Getenv("VCHECK_RACE_BIN"), VerifDir: verifDir, WorkDir: work, Only: -1}
		if os.Args[1] == "run" {
			if len(os.Args) != 4 {
				fmt.Fprintln(os.Stderr, "usage: vcheck run ID tier")
				os.Exit(64)
			}
			d.P = core.Lookup(os.Args[2])
			d.Tier = os.Args[3]
			d.Seed = seed()
		} else {
			b, err := os.ReadFile(os.Args[2])
			if err != nil {
				fmt.Fprintln(os.Stderr, err)
				os.Exit(64)
			}
			var r struct {
				Property string `json:"property"`
				Tier     string `json:"tier"`
				Seed     int64  `json:"seed"`
				Idx      int    `json:"idx"`
			}
			if err := json.Unmarshal(b, &r); err != nil {
				fmt.Fprintln(os.Stderr, err)
				os.Exit(64)
			}
			d.P = core.Lookup(r.Property)
			d.Tier, d.Seed, d.Only = r.Tier, r.Seed, r.Idx
			if r.Idx < 0 { // race reports are not tied to one case: re-run the whole check
				d.Only = -1
			}
		}
		if d.P == nil {
			fmt.Fprintln(os.Stderr, "unknown property")
			os.Exit(64)
		}
		if d.Tier != "quick" && d.Tier != "thorough" {
			fmt.Fprintln(os.Stderr, "tier must be quick or thorough")
			os.Exit(64)
		}
		code := d.Run()
		os.RemoveAll(work)
		os.Exit(code)
	default:
		fmt.Fprintln(os.Stderr, "unknown command")
		os.Exit(64)
	}
}
