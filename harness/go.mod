module verif/harness

go 1.21

require github.com/biscuit-auth/biscuit-go/v2 v2.0.0

require google.golang.org/protobuf v1.34.2 // indirect

replace github.com/biscuit-auth/biscuit-go/v2 => /repo
