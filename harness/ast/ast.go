// Package ast is the harness's own builder-level representation of Datalog
// content (strings, int64, bytes - never symbol indexes).  Reference models,
// generators and witnesses all speak this vocabulary; conversions to the
// library's builder types live in conv.go.
package ast

import (
	"encoding/hex"
	"fmt"
	"sort"
	"strings"
)

type Kind int

const (
	KVar Kind = iota
	KInt
	KStr
	KDate
	KBytes
	KBool
	KSet
)

var kindNames = [...]string{"var", "int", "str", "date", "bytes", "bool", "set"}

func (k Kind) String() string { return kindNames[k] }

type Term struct {
	K   Kind   `json:"k"`
	I   int64  `json:"i,omitempty"`
	S   string `json:"s,omitempty"`   // variable name or string value
	D   uint64 `json:"d,omitempty"`   // date, unix seconds
	B   []byte `json:"b,omitempty"`   // bytes
	Bo  bool   `json:"bo,omitempty"`  // bool
	Set []Term `json:"set,omitempty"` // set elements
}

func Var(n string) Term     { return Term{K: KVar, S: n} }
func Int(i int64) Term      { return Term{K: KInt, I: i} }
func Str(s string) Term     { return Term{K: KStr, S: s} }
func Date(d uint64) Term    { return Term{K: KDate, D: d} }
func Bytes(b []byte) Term   { return Term{K: KBytes, B: append([]byte{}, b...)} }
func Bool(b bool) Term      { return Term{K: KBool, Bo: b} }
func SetOf(e ...Term) Term  { return Term{K: KSet, Set: e} }
func (t Term) IsVar() bool  { return t.K == KVar }
func (t Term) IsBool() bool { return t.K == KBool }

// Key is a canonical, injective text for a term (sets are sorted and
// de-duplicated: a set is a set).
func (t Term) Key() string {
	switch t.K {
	case KVar:
		return "$" + t.S
	case KInt:
		return fmt.Sprintf("%d", t.I)
	case KStr:
		return fmt.Sprintf("%q", t.S)
	case KDate:
		return fmt.Sprintf("@%d", t.D)
	case KBytes:
		return "hex:" + hex.EncodeToString(t.B)
	case KBool:
		if t.Bo {
			return "true"
		}
		return "false"
	case KSet:
		ks := make([]string, 0, len(t.Set))
		seen := map[string]bool{}
		for _, e := range t.Set {
			k := e.Key()
			if !seen[k] {
				seen[k] = true
				ks = append(ks, k)
			}
		}
		sort.Strings(ks)
		return "[" + strings.Join(ks, ",") + "]"
	}
	return "?"
}

func (t Term) Equal(u Term) bool { return t.Key() == u.Key() }

// ElemKind returns the kind of the elements of a set and whether all elements
// have the same kind.
func (t Term) ElemKind() (Kind, bool) {
	if len(t.Set) == 0 {
		return KInt, false
	}
	k := t.Set[0].K
	for _, e := range t.Set {
		if e.K != k {
			return k, false
		}
	}
	return k, true
}

// HasDup reports whether a set term carries duplicate elements.
func (t Term) HasDup() bool {
	seen := map[string]bool{}
	for _, e := range t.Set {
		k := e.Key()
		if seen[k] {
			return true
		}
		seen[k] = true
	}
	return false
}

type Pred struct {
	Name  string `json:"name"`
	Terms []Term `json:"terms"`
}

func P(name string, terms ...Term) Pred { return Pred{Name: name, Terms: terms} }

func (p Pred) Key() string {
	ts := make([]string, len(p.Terms))
	for i, t := range p.Terms {
		ts[i] = t.Key()
	}
	return p.Name + "(" + strings.Join(ts, ",") + ")"
}

func (p Pred) Ground() bool {
	for _, t := range p.Terms {
		if t.K == KVar {
			return false
		}
	}
	return true
}

type OpKind int

const (
	OpValue OpKind = iota
	OpUnary
	OpBinary
)

// Unary operator codes (same numbering as the published schema).
const (
	UNegate = 0
	UParens = 1
	ULength = 2
)

// Binary operator codes (same numbering as the published schema).
const (
	BLessThan = iota
	BGreaterThan
	BLessOrEqual
	BGreaterOrEqual
	BEqual
	BContains
	BPrefix
	BSuffix
	BRegex
	BAdd
	BSub
	BMul
	BDiv
	BAnd
	BOr
	BIntersection
	BUnion
	NumBinary
)

var BinaryNames = [...]string{"<", ">", "<=", ">=", "==", "contains", "starts_with", "ends_with", "matches", "+", "-", "*", "/", "&&", "||", "intersection", "union"}
var UnaryNames = [...]string{"!", "()", "length"}

type Op struct {
	K OpKind `json:"k"`
	V *Term  `json:"v,omitempty"`
	C int    `json:"c,omitempty"` // operator code for unary / binary
}

func OV(t Term) Op { return Op{K: OpValue, V: &t} }
func OU(c int) Op  { return Op{K: OpUnary, C: c} }
func OB(c int) Op  { return Op{K: OpBinary, C: c} }

type Expr []Op

func (e Expr) Key() string {
	parts := make([]string, len(e))
	for i, o := range e {
		switch o.K {
		case OpValue:
			parts[i] = o.V.Key()
		case OpUnary:
			if o.C >= 0 && o.C < len(UnaryNames) {
				parts[i] = "u:" + UnaryNames[o.C]
			} else {
				parts[i] = fmt.Sprintf("u:%d", o.C)
			}
		case OpBinary:
			if o.C >= 0 && o.C < len(BinaryNames) {
				parts[i] = "b:" + BinaryNames[o.C]
			} else {
				parts[i] = fmt.Sprintf("b:%d", o.C)
			}
		}
	}
	return "{" + strings.Join(parts, " ") + "}"
}

// Shape abstracts operands away: only operator sequence and operand kinds.
func (e Expr) Shape() string {
	parts := make([]string, len(e))
	for i, o := range e {
		switch o.K {
		case OpValue:
			parts[i] = o.V.K.String()
		case OpUnary:
			parts[i] = "u" + fmt.Sprint(o.C)
		case OpBinary:
			parts[i] = "b" + fmt.Sprint(o.C)
		}
	}
	return strings.Join(parts, " ")
}

type Rule struct {
	Head  Pred   `json:"head"`
	Body  []Pred `json:"body"`
	Exprs []Expr `json:"exprs,omitempty"`
}

func (r Rule) Key() string {
	bs := make([]string, 0, len(r.Body)+len(r.Exprs))
	for _, b := range r.Body {
		bs = append(bs, b.Key())
	}
	for _, e := range r.Exprs {
		bs = append(bs, e.Key())
	}
	return r.Head.Key() + " <- " + strings.Join(bs, ", ")
}

type Check struct {
	Queries []Rule `json:"queries"`
}

func (c Check) Key() string {
	qs := make([]string, len(c.Queries))
	for i, q := range c.Queries {
		qs[i] = q.Key()
	}
	return "check if " + strings.Join(qs, " or ")
}

type Policy struct {
	Allow   bool   `json:"allow"`
	Queries []Rule `json:"queries"`
}

func (p Policy) Key() string {
	qs := make([]string, len(p.Queries))
	for i, q := range p.Queries {
		qs[i] = q.Key()
	}
	k := "deny if "
	if p.Allow {
		k = "allow if "
	}
	return k + strings.Join(qs, " or ")
}

type Block struct {
	Facts   []Pred  `json:"facts,omitempty"`
	Rules   []Rule  `json:"rules,omitempty"`
	Checks  []Check `json:"checks,omitempty"`
	Context string  `json:"context,omitempty"`
}

func (b Block) Key() string {
	var sb strings.Builder
	for _, f := range b.Facts {
		sb.WriteString(f.Key() + ";")
	}
	for _, r := range b.Rules {
		sb.WriteString(r.Key() + ";")
	}
	for _, c := range b.Checks {
		sb.WriteString(c.Key() + ";")
	}
	if b.Context != "" {
		sb.WriteString("ctx=" + fmt.Sprintf("%q", b.Context))
	}
	return sb.String()
}

// SortedKeys returns facts, rules and checks as sorted canonical strings
// (multiset comparison that does not depend on storage order).
func (b Block) SortedKeys() (facts, rules, checks []string) {
	for _, f := range b.Facts {
		facts = append(facts, f.Key())
	}
	for _, r := range b.Rules {
		rules = append(rules, r.Key())
	}
	for _, c := range b.Checks {
		checks = append(checks, c.Key())
	}
	sort.Strings(facts)
	sort.Strings(rules)
	sort.Strings(checks)
	return
}

// Authorizer content (what a caller adds to an authorizer).
type AuthContent struct {
	Facts    []Pred   `json:"facts,omitempty"`
	Rules    []Rule   `json:"rules,omitempty"`
	Checks   []Check  `json:"checks,omitempty"`
	Policies []Policy `json:"policies,omitempty"`
}

func (a AuthContent) Key() string {
	var sb strings.Builder
	sb.WriteString(Block{Facts: a.Facts, Rules: a.Rules, Checks: a.Checks}.Key())
	for _, p := range a.Policies {
		sb.WriteString(p.Key() + ";")
	}
	return sb.String()
}

// FactSetKeys: canonical sorted, de-duplicated keys of a list of facts.
func FactSetKeys(fs []Pred) []string {
	seen := map[string]bool{}
	out := []string{}
	for _, f := range fs {
		k := f.Key()
		if !seen[k] {
			seen[k] = true
			out = append(out, k)
		}
	}
	sort.Strings(out)
	return out
}
