package ast

import (
	"fmt"
	"time"

	biscuit "github.com/biscuit-auth/biscuit-go/v2"
)

// ---- ast -> library builder values -------------------------------------------------------

func (t Term) Lib() biscuit.Term {
	switch t.K {
	case KVar:
		return biscuit.Variable(t.S)
	case KInt:
		return biscuit.Integer(t.I)
	case KStr:
		return biscuit.String(t.S)
	case KDate:
		return biscuit.Date(time.Unix(int64(t.D), 0))
	case KBytes:
		return biscuit.Bytes(append([]byte{}, t.B...))
	case KBool:
		return biscuit.Bool(t.Bo)
	case KSet:
		s := make(biscuit.Set, 0, len(t.Set))
		for _, e := range t.Set {
			s = append(s, e.Lib())
		}
		return s
	}
	panic("ast: bad kind")
}

func (p Pred) Lib() biscuit.Predicate {
	ids := make([]biscuit.Term, 0, len(p.Terms))
	for _, t := range p.Terms {
		ids = append(ids, t.Lib())
	}
	return biscuit.Predicate{Name: p.Name, IDs: ids}
}

func (p Pred) LibFact() biscuit.Fact { return biscuit.Fact{Predicate: p.Lib()} }

var libBinary = [...]biscuit.BinaryOp{
	BLessThan: biscuit.BinaryLessThan, BGreaterThan: biscuit.BinaryGreaterThan,
	BLessOrEqual: biscuit.BinaryLessOrEqual, BGreaterOrEqual: biscuit.BinaryGreaterOrEqual,
	BEqual: biscuit.BinaryEqual, BContains: biscuit.BinaryContains, BPrefix: biscuit.BinaryPrefix,
	BSuffix: biscuit.BinarySuffix, BRegex: biscuit.BinaryRegex, BAdd: biscuit.BinaryAdd,
	BSub: biscuit.BinarySub, BMul: biscuit.BinaryMul, BDiv: biscuit.BinaryDiv, BAnd: biscuit.BinaryAnd,
	BOr: biscuit.BinaryOr, BIntersection: biscuit.BinaryIntersection, BUnion: biscuit.BinaryUnion,
}

var libUnary = [...]biscuit.UnaryOp{UNegate: biscuit.UnaryNegate, UParens: biscuit.UnaryParens, ULength: biscuit.UnaryLength}

func (e Expr) Lib() biscuit.Expression {
	out := make(biscuit.Expression, 0, len(e))
	for _, o := range e {
		switch o.K {
		case OpValue:
			out = append(out, biscuit.Value{Term: o.V.Lib()})
		case OpUnary:
			out = append(out, libUnary[o.C])
		case OpBinary:
			out = append(out, libBinary[o.C])
		}
	}
	return out
}

func (r Rule) Lib() biscuit.Rule {
	body := make([]biscuit.Predicate, 0, len(r.Body))
	for _, b := range r.Body {
		body = append(body, b.Lib())
	}
	ex := make([]biscuit.Expression, 0, len(r.Exprs))
	for _, e := range r.Exprs {
		ex = append(ex, e.Lib())
	}
	return biscuit.Rule{Head: r.Head.Lib(), Body: body, Expressions: ex}
}

func (c Check) Lib() biscuit.Check {
	qs := make([]biscuit.Rule, 0, len(c.Queries))
	for _, q := range c.Queries {
		qs = append(qs, q.Lib())
	}
	return biscuit.Check{Queries: qs}
}

func (p Policy) Lib() biscuit.Policy {
	qs := make([]biscuit.Rule, 0, len(p.Queries))
	for _, q := range p.Queries {
		qs = append(qs, q.Lib())
	}
	k := biscuit.PolicyKind(biscuit.PolicyKindDeny)
	if p.Allow {
		k = biscuit.PolicyKindAllow
	}
	return biscuit.Policy{Kind: k, Queries: qs}
}

// ---- library builder values -> ast -------------------------------------------------------

func FromLibTerm(t biscuit.Term) (Term, error) {
	switch v := t.(type) {
	case biscuit.Variable:
		return Var(string(v)), nil
	case biscuit.Integer:
		return Int(int64(v)), nil
	case biscuit.String:
		return Str(string(v)), nil
	case biscuit.Date:
		return Date(uint64(time.Time(v).Unix())), nil
	case biscuit.Bytes:
		return Bytes([]byte(v)), nil
	case biscuit.Bool:
		return Bool(bool(v)), nil
	case biscuit.Set:
		out := Term{K: KSet}
		for _, e := range v {
			x, err := FromLibTerm(e)
			if err != nil {
				return Term{}, err
			}
			out.Set = append(out.Set, x)
		}
		return out, nil
	case nil:
		return Term{}, fmt.Errorf("nil term")
	}
	return Term{}, fmt.Errorf("unknown term type %T", t)
}

func FromLibPred(p biscuit.Predicate) (Pred, error) {
	out := Pred{Name: p.Name, Terms: []Term{}}
	for _, id := range p.IDs {
		t, err := FromLibTerm(id)
		if err != nil {
			return Pred{}, err
		}
		out.Terms = append(out.Terms, t)
	}
	return out, nil
}

func FromLibExpr(e biscuit.Expression) (Expr, error) {
	out := Expr{}
	for _, op := range e {
		switch v := op.(type) {
		case biscuit.Value:
			t, err := FromLibTerm(v.Term)
			if err != nil {
				return nil, err
			}
			out = append(out, OV(t))
		case biscuit.UnaryOp:
			found := false
			for c, u := range libUnary {
				if u == v {
					out = append(out, OU(c))
					found = true
				}
			}
			if !found {
				return nil, fmt.Errorf("unknown unary %v", v)
			}
		case biscuit.BinaryOp:
			found := false
			for c, b := range libBinary {
				if b == v {
					out = append(out, OB(c))
					found = true
				}
			}
			if !found {
				return nil, fmt.Errorf("unknown binary %v", v)
			}
		default:
			return nil, fmt.Errorf("unknown op %T", op)
		}
	}
	return out, nil
}

func FromLibRule(r biscuit.Rule) (Rule, error) {
	h, err := FromLibPred(r.Head)
	if err != nil {
		return Rule{}, err
	}
	out := Rule{Head: h}
	for _, b := range r.Body {
		p, err := FromLibPred(b)
		if err != nil {
			return Rule{}, err
		}
		out.Body = append(out.Body, p)
	}
	for _, e := range r.Expressions {
		x, err := FromLibExpr(e)
		if err != nil {
			return Rule{}, err
		}
		out.Exprs = append(out.Exprs, x)
	}
	return out, nil
}

func FromLibCheck(c biscuit.Check) (Check, error) {
	out := Check{}
	for _, q := range c.Queries {
		r, err := FromLibRule(q)
		if err != nil {
			return Check{}, err
		}
		out.Queries = append(out.Queries, r)
	}
	return out, nil
}

func FromLibPolicy(p biscuit.Policy) (Policy, error) {
	out := Policy{Allow: p.Kind == biscuit.PolicyKindAllow}
	for _, q := range p.Queries {
		r, err := FromLibRule(q)
		if err != nil {
			return Policy{}, err
		}
		out.Queries = append(out.Queries, r)
	}
	return out, nil
}
