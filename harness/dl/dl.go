// Package dl converts between the harness AST and the library's datalog-level
// values (symbol indexes), with its own reader for the symbol table so that
// results are resolved independently of the library's Str/Var helpers.
package dl

import (
	"fmt"

	"github.com/biscuit-auth/biscuit-go/v2/datalog"

	"verif/harness/ast"
)

// DefaultSymbols is the harness's own copy of the published default table.
var DefaultSymbols = []string{
	"read", "write", "resource", "operation", "right", "time", "role", "owner", "tenant", "namespace",
	"user", "team", "service", "admin", "email", "group", "member", "ip_address", "client", "client_ip",
	"domain", "path", "version", "cluster", "node", "hostname", "nonce", "query",
}

const Offset = 1024

type Syms struct{ T *datalog.SymbolTable }

func NewSyms() *Syms { t := datalog.SymbolTable{}; return &Syms{T: &t} }

// Resolve reads index i with the harness's own rule (default table below 1024).
func (s *Syms) Resolve(i uint64) (string, bool) {
	if i < Offset {
		if i < uint64(len(DefaultSymbols)) {
			return DefaultSymbols[i], true
		}
		return "", false
	}
	j := i - Offset
	if j < uint64(len(*s.T)) {
		return (*s.T)[j], true
	}
	return "", false
}

func (s *Syms) Term(t ast.Term) datalog.Term {
	switch t.K {
	case ast.KVar:
		return datalog.Variable(s.T.Insert(t.S))
	case ast.KInt:
		return datalog.Integer(t.I)
	case ast.KStr:
		return s.T.Insert(t.S)
	case ast.KDate:
		return datalog.Date(t.D)
	case ast.KBytes:
		return datalog.Bytes(append([]byte{}, t.B...))
	case ast.KBool:
		return datalog.Bool(t.Bo)
	case ast.KSet:
		out := make(datalog.Set, 0, len(t.Set))
		for _, e := range t.Set {
			out = append(out, s.Term(e))
		}
		return out
	}
	panic("dl: bad kind")
}

func (s *Syms) Back(t datalog.Term) (ast.Term, error) {
	switch v := t.(type) {
	case datalog.Variable:
		n, ok := s.Resolve(uint64(v))
		if !ok {
			return ast.Term{}, fmt.Errorf("unresolvable variable %d", v)
		}
		return ast.Var(n), nil
	case datalog.Integer:
		return ast.Int(int64(v)), nil
	case datalog.String:
		n, ok := s.Resolve(uint64(v))
		if !ok {
			return ast.Term{}, fmt.Errorf("unresolvable string %d", v)
		}
		return ast.Str(n), nil
	case datalog.Date:
		return ast.Date(uint64(v)), nil
	case datalog.Bytes:
		return ast.Bytes([]byte(v)), nil
	case datalog.Bool:
		return ast.Bool(bool(v)), nil
	case datalog.Set:
		out := ast.Term{K: ast.KSet}
		for _, e := range v {
			x, err := s.Back(e)
			if err != nil {
				return ast.Term{}, err
			}
			out.Set = append(out.Set, x)
		}
		return out, nil
	case nil:
		return ast.Term{}, fmt.Errorf("nil term")
	}
	return ast.Term{}, fmt.Errorf("unknown term %T", t)
}

func (s *Syms) Pred(p ast.Pred) datalog.Predicate {
	ts := make([]datalog.Term, 0, len(p.Terms))
	for _, t := range p.Terms {
		ts = append(ts, s.Term(t))
	}
	return datalog.Predicate{Name: s.T.Insert(p.Name), Terms: ts}
}

func (s *Syms) BackPred(p datalog.Predicate) (ast.Pred, error) {
	n, ok := s.Resolve(uint64(p.Name))
	if !ok {
		return ast.Pred{}, fmt.Errorf("unresolvable name %d", p.Name)
	}
	out := ast.Pred{Name: n, Terms: []ast.Term{}}
	for _, t := range p.Terms {
		x, err := s.Back(t)
		if err != nil {
			return ast.Pred{}, err
		}
		out.Terms = append(out.Terms, x)
	}
	return out, nil
}

var binFuncs = [...]datalog.BinaryOpFunc{
	ast.BLessThan: datalog.LessThan{}, ast.BGreaterThan: datalog.GreaterThan{}, ast.BLessOrEqual: datalog.LessOrEqual{},
	ast.BGreaterOrEqual: datalog.GreaterOrEqual{}, ast.BEqual: datalog.Equal{}, ast.BContains: datalog.Contains{},
	ast.BPrefix: datalog.Prefix{}, ast.BSuffix: datalog.Suffix{}, ast.BRegex: datalog.Regex{}, ast.BAdd: datalog.Add{},
	ast.BSub: datalog.Sub{}, ast.BMul: datalog.Mul{}, ast.BDiv: datalog.Div{}, ast.BAnd: datalog.And{}, ast.BOr: datalog.Or{},
	ast.BIntersection: datalog.Intersection{}, ast.BUnion: datalog.Union{},
}
var unFuncs = [...]datalog.UnaryOpFunc{ast.UNegate: datalog.Negate{}, ast.UParens: datalog.Parens{}, ast.ULength: datalog.Length{}}

func (s *Syms) Expr(e ast.Expr) datalog.Expression {
	out := make(datalog.Expression, 0, len(e))
	for _, o := range e {
		switch o.K {
		case ast.OpValue:
			out = append(out, datalog.Value{ID: s.Term(*o.V)})
		case ast.OpUnary:
			out = append(out, datalog.UnaryOp{UnaryOpFunc: unFuncs[o.C]})
		case ast.OpBinary:
			out = append(out, datalog.BinaryOp{BinaryOpFunc: binFuncs[o.C]})
		}
	}
	return out
}

func (s *Syms) Rule(r ast.Rule) datalog.Rule {
	out := datalog.Rule{Head: s.Pred(r.Head)}
	for _, b := range r.Body {
		out.Body = append(out.Body, s.Pred(b))
	}
	for _, e := range r.Exprs {
		out.Expressions = append(out.Expressions, s.Expr(e))
	}
	return out
}

// FactKeys resolves a library fact set to canonical keys (sorted by the caller if needed).
func (s *Syms) FactKeys(fs *datalog.FactSet) ([]string, error) {
	out := make([]string, 0, len(*fs))
	for _, f := range *fs {
		p, err := s.BackPred(f.Predicate)
		if err != nil {
			return nil, err
		}
		out = append(out, p.Key())
	}
	return out, nil
}
