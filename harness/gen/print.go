package gen

import (
	"encoding/hex"
	"fmt"
	"strings"
	"time"

	"verif/harness/ast"
)

// Printing of AST values in the documented grammar (parser/GRAMMAR.md).  The
// expression printer rebuilds the tree from the postfix sequence and inserts
// exactly the parentheses that precedence and associativity require; explicit
// UParens operators print as parentheses.

// Printable reports whether a term lies in the lexical domain the grammar can express.
func Printable(t ast.Term) bool {
	switch t.K {
	case ast.KVar:
		return identLike(t.S)
	case ast.KInt:
		return t.I >= 0
	case ast.KStr:
		return !strings.ContainsAny(t.S, "\"\\") && !strings.ContainsAny(t.S, "\n\r")
	case ast.KDate:
		return t.D <= 253402300799 // year 9999
	case ast.KSet:
		if len(t.Set) == 0 {
			return false
		}
		for _, e := range t.Set {
			if e.K == ast.KSet || e.K == ast.KVar || !Printable(e) {
				return false
			}
		}
	}
	return true
}

func identLike(s string) bool {
	if s == "" {
		return false
	}
	for _, c := range s {
		if !(c >= 'a' && c <= 'z' || c >= 'A' && c <= 'Z' || c >= '0' && c <= '9' || c == '_' || c == ':') {
			return false
		}
	}
	return true
}

var lexerKeywordPrefixes = []string{"prefix", "suffix", "matches", "length", "contains", "true", "false"}

// NameOK: predicate names the lexer tokenizes as one identifier.
func NameOK(s string) bool {
	if s == "" || !(s[0] >= 'a' && s[0] <= 'z') || !identLike(s) {
		return false
	}
	for _, k := range lexerKeywordPrefixes {
		if strings.HasPrefix(s, k) {
			return false
		}
	}
	return true
}

func TermText(t ast.Term) string {
	switch t.K {
	case ast.KVar:
		return "$" + t.S
	case ast.KInt:
		return fmt.Sprintf("%d", t.I)
	case ast.KStr:
		return "\"" + t.S + "\""
	case ast.KDate:
		return time.Unix(int64(t.D), 0).UTC().Format(time.RFC3339)
	case ast.KBytes:
		return "hex:" + hex.EncodeToString(t.B)
	case ast.KBool:
		if t.Bo {
			return "true"
		}
		return "false"
	case ast.KSet:
		es := make([]string, len(t.Set))
		for i, e := range t.Set {
			es[i] = TermText(e)
		}
		return "[" + strings.Join(es, ", ") + "]"
	}
	return "?"
}

func PredText(p ast.Pred) string {
	ts := make([]string, len(p.Terms))
	for i, t := range p.Terms {
		ts[i] = TermText(t)
	}
	return p.Name + "(" + strings.Join(ts, ", ") + ")"
}

// Node is an expression tree.
type Node struct {
	Leaf *ast.Term
	Un   int // unary code, -1 if none
	Bin  int // binary code, -1 if none
	Kids []*Node
}

// Tree rebuilds the tree of a well-formed postfix sequence (nil if malformed).
func Tree(e ast.Expr) *Node {
	st := []*Node{}
	for _, op := range e {
		switch op.K {
		case ast.OpValue:
			t := *op.V
			st = append(st, &Node{Leaf: &t, Un: -1, Bin: -1})
		case ast.OpUnary:
			if len(st) < 1 {
				return nil
			}
			k := st[len(st)-1]
			st[len(st)-1] = &Node{Un: op.C, Bin: -1, Kids: []*Node{k}}
		case ast.OpBinary:
			if len(st) < 2 {
				return nil
			}
			l, r := st[len(st)-2], st[len(st)-1]
			st = st[:len(st)-2]
			st = append(st, &Node{Un: -1, Bin: op.C, Kids: []*Node{l, r}})
		}
	}
	if len(st) != 1 {
		return nil
	}
	return st[0]
}

// Postfix flattens a tree back to the postfix sequence.
func (n *Node) Postfix() ast.Expr {
	if n.Leaf != nil {
		return ast.Expr{ast.OV(*n.Leaf)}
	}
	out := ast.Expr{}
	for _, k := range n.Kids {
		out = append(out, k.Postfix()...)
	}
	if n.Un >= 0 {
		return append(out, ast.OU(n.Un))
	}
	return append(out, ast.OB(n.Bin))
}

const (
	lvOr = 1 + iota
	lvAnd
	lvCmp
	lvAdd
	lvMul
	lvNot
	lvMethod
	lvAtom
)

func binLevel(c int) int {
	switch c {
	case ast.BOr:
		return lvOr
	case ast.BAnd:
		return lvAnd
	case ast.BLessThan, ast.BGreaterThan, ast.BLessOrEqual, ast.BGreaterOrEqual, ast.BEqual:
		return lvCmp
	case ast.BAdd, ast.BSub:
		return lvAdd
	case ast.BMul, ast.BDiv:
		return lvMul
	}
	return lvMethod // contains, starts_with, ... are method calls
}

func (n *Node) level() int {
	switch {
	case n.Leaf != nil:
		return lvAtom
	case n.Un == ast.UParens:
		return lvAtom
	case n.Un == ast.UNegate:
		return lvNot
	case n.Un == ast.ULength:
		return lvMethod
	}
	return binLevel(n.Bin)
}

var methodNames = map[int]string{ast.BContains: "contains", ast.BPrefix: "starts_with", ast.BSuffix: "ends_with", ast.BRegex: "matches", ast.BIntersection: "intersection", ast.BUnion: "union"}

// Text prints the tree; needParens receives true whenever a parenthesis had to be
// added that is not an explicit UParens node (the parse then carries one more Parens op).
func (n *Node) Text(added *int) string {
	wrap := func(k *Node, need bool) string {
		s := k.Text(added)
		if need {
			*added++
			return "(" + s + ")"
		}
		return s
	}
	switch {
	case n.Leaf != nil:
		return TermText(*n.Leaf)
	case n.Un == ast.UParens:
		return "(" + n.Kids[0].Text(added) + ")"
	case n.Un == ast.UNegate:
		return "!" + wrap(n.Kids[0], n.Kids[0].level() < lvMethod)
	case n.Un == ast.ULength:
		return wrap(n.Kids[0], n.Kids[0].level() < lvMethod) + ".length()"
	}
	lv := binLevel(n.Bin)
	if lv == lvMethod {
		return wrap(n.Kids[0], n.Kids[0].level() < lvMethod) + "." + methodNames[n.Bin] + "(" + n.Kids[1].Text(added) + ")"
	}
	l, r := n.Kids[0], n.Kids[1]
	needL := l.level() < lv || (lv == lvCmp && l.level() == lvCmp)
	needR := r.level() <= lv
	return wrap(l, needL) + " " + ast.BinaryNames[n.Bin] + " " + wrap(r, needR)
}

// ExprText prints a postfix expression in the grammar; ok is false for malformed sequences.
func ExprText(e ast.Expr) (text string, addedParens int, ok bool) {
	t := Tree(e)
	if t == nil {
		return "", 0, false
	}
	n := 0
	s := t.Text(&n)
	return s, n, true
}

func bodyText(r ast.Rule) string {
	parts := []string{}
	for _, b := range r.Body {
		parts = append(parts, PredText(b))
	}
	for _, e := range r.Exprs {
		s, _, _ := ExprText(e)
		parts = append(parts, s)
	}
	return strings.Join(parts, ", ")
}

func RuleText(r ast.Rule) string { return PredText(r.Head) + " <- " + bodyText(r) }

func CheckText(c ast.Check) string {
	qs := make([]string, len(c.Queries))
	for i, q := range c.Queries {
		qs[i] = bodyText(q)
	}
	return "check if " + strings.Join(qs, " or ")
}

func PolicyText(p ast.Policy) string {
	qs := make([]string, len(p.Queries))
	for i, q := range p.Queries {
		qs[i] = bodyText(q)
	}
	k := "deny if "
	if p.Allow {
		k = "allow if "
	}
	return k + strings.Join(qs, " or ")
}

// RulePrintable: every part of the rule is in the grammar's lexical domain and
// the rule has a non-empty body (the grammar has no empty-body rule).
func RulePrintable(r ast.Rule, isQuery bool) bool {
	if len(r.Body)+len(r.Exprs) == 0 {
		return false
	}
	if !isQuery && !predPrintable(r.Head) {
		return false
	}
	for _, b := range r.Body {
		if !predPrintable(b) {
			return false
		}
	}
	for _, e := range r.Exprs {
		if Tree(e) == nil {
			return false
		}
		for _, op := range e {
			if op.K == ast.OpValue && !Printable(*op.V) {
				return false
			}
		}
	}
	return true
}

func predPrintable(p ast.Pred) bool {
	if !NameOK(p.Name) {
		return false
	}
	for _, t := range p.Terms {
		if !Printable(t) {
			return false
		}
	}
	return true
}

func BlockPrintable(b ast.Block) bool {
	for _, f := range b.Facts {
		if !predPrintable(f) {
			return false
		}
	}
	for _, r := range b.Rules {
		if !RulePrintable(r, false) {
			return false
		}
	}
	for _, c := range b.Checks {
		for _, q := range c.Queries {
			if !RulePrintable(q, true) {
				return false
			}
		}
	}
	return true
}

func BlockText(b ast.Block) string {
	var sb strings.Builder
	for _, f := range b.Facts {
		sb.WriteString(PredText(f) + ";\n")
	}
	for _, r := range b.Rules {
		sb.WriteString(RuleText(r) + ";\n")
	}
	for _, c := range b.Checks {
		sb.WriteString(CheckText(c) + ";\n")
	}
	return sb.String()
}

func AuthPrintable(a ast.AuthContent) bool {
	if !BlockPrintable(ast.Block{Facts: a.Facts, Rules: a.Rules, Checks: a.Checks}) {
		return false
	}
	for _, p := range a.Policies {
		for _, q := range p.Queries {
			if !RulePrintable(q, true) {
				return false
			}
		}
	}
	return true
}

func AuthText(a ast.AuthContent) string {
	s := BlockText(ast.Block{Facts: a.Facts, Rules: a.Rules, Checks: a.Checks})
	for _, p := range a.Policies {
		s += PolicyText(p) + ";\n"
	}
	return s
}
