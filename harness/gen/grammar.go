package gen

import (
	"encoding/hex"
	"fmt"
	"math/rand"
	"strings"
	"time"

	"verif/harness/ast"
)

// R4 - grammar generator. It draws an abstract syntax tree first, inserts exactly the
// parenthesis nodes that the documented precedence / associativity require (plus random
// redundant ones, which the parser must preserve as Parens operators), prints the tree as a
// token list with random layout, and returns the expected builder value computed from the
// TREE, never from the text.

// ---- lexical pools (the explored lexical domain, see DESIGN C14) ---------------------------

var gNames = []string{"p", "q", "right", "resource", "operation", "owner", "a", "b1", "can_read", "x:y", "zZ_9", "fact", "user", "time",
	// names that begin with a word of the expression language (they are ordinary names)
	"role", "tenant", "namespace", "team", "service", "admin", "email", "group", "member", "ip_address", "client", "client_ip", "domain", "path", "version", "cluster", "node", "hostname", "nonce", "query", "read", "write",
	"union_member", "intersection_of", "starts_with_a", "ends_with_z", "or_else", "allow_list", "check_in", "not_before", "in_group"}
var gVars = []string{"x", "y", "0", "1", "var1", "file", "true", "resource", "A_b:c",
	// every name of the default symbol table is an ordinary variable name (and predicate name, and string)
	"read", "write", "operation", "right", "time", "role", "owner", "tenant", "namespace", "user", "team", "service", "admin", "email", "group", "member", "ip_address", "client", "client_ip", "domain", "path", "version", "cluster", "node", "hostname", "nonce", "query"}
var gStrings = []string{"", "a", "read", "/a/file1.txt", "hello world", "é日本", "a//b", "x;y", "check if", "$x", "{p}", "1 < 2", "[1,2]", "tab\there", "line\nbreak", "\n", "cr\rlf\r\n", "ip_address", "query", "nonce", "#sym", "hex:41", "2006-01-02T15:04:05Z", "true", "42", "100%", "50%off", "/my%20files", "%s%d%v", "%",
	// strings whose content is an operator, a bracket or a keyword of the grammar
	"!", "(", ")", "==", "&&", "||", "+", "-", "*", "/", ".", ",", "<-", "[", "]", "length", "contains", "allow if", "or", "<", ">="}
var gParams = []string{"p", "param1", "a:b", "X", "9"}
var gDates = []string{"2006-01-02T15:04:05Z", "1970-01-01T00:00:00Z", "2006-01-02T15:04:05+07:00", "2038-01-19T03:14:08Z", "1999-12-31T23:59:59-11:30", "2020-02-29T12:00:00.5Z", "9999-12-31T23:59:59Z"}

// GTerm is a term as written in source text.
type GTerm struct {
	Text string   // how it is written
	Val  ast.Term // what it denotes (after parameter substitution)
}

// Params collects parameter bindings used by a generated text.
type Params map[string]ast.Term

func gScalar(r *rand.Rand, params Params, allowVar, allowParam bool) GTerm {
	for {
		switch r.Intn(9) {
		case 0:
			if !allowVar {
				continue
			}
			v := Pick(r, gVars)
			return GTerm{"$" + v, ast.Var(v)}
		case 1:
			i := Pick(r, []int64{0, 1, 2, 7, 42, 1 << 31, 1<<63 - 1, 100, 5})
			if r.Intn(6) == 0 {
				// "integer is any base-10 int64": leading zeros do not change the base
				j := Pick(r, []int64{0, 7, 8, 9, 10, 17, 100})
				return GTerm{Pick(r, []string{"0", "00", "000"}) + fmt.Sprint(j), ast.Int(j)}
			}
			return GTerm{fmt.Sprint(i), ast.Int(i)}
		case 2, 3:
			s := Pick(r, gStrings)
			return GTerm{"\"" + s + "\"", ast.Str(s)}
		case 4:
			d := Pick(r, gDates)
			t, err := time.Parse(time.RFC3339, d)
			if err != nil {
				panic(err)
			}
			return GTerm{d, ast.Date(uint64(t.Unix()))}
		case 5:
			b := Pick(r, SmallBytes)
			if r.Intn(3) == 0 {
				// byte arrays whose first digits are letters that also occur in the "hex:" prefix
				b = Pick(r, [][]byte{{0xee}, {0xee, 0xee, 0x01}, {0xe0, 0xff}, {0xe1}, {0xec, 0x0e}, {0xfe, 0xed}, {0x0e}})
			}
			h := hex.EncodeToString(b)
			if r.Intn(2) == 0 {
				h = strings.ToUpper(h)
			}
			return GTerm{"hex:" + h, ast.Bytes(b)}
		case 6:
			if r.Intn(2) == 0 {
				return GTerm{"true", ast.Bool(true)}
			}
			return GTerm{"false", ast.Bool(false)}
		case 7:
			if !allowParam {
				continue
			}
			name := Pick(r, gParams)
			v, ok := params[name]
			if !ok {
				if r.Intn(4) == 0 {
					v = SetOf(r, Pick(r, ScalarKinds), 1+r.Intn(2), false)
				} else {
					v = HardScalar(r, Pick(r, ScalarKinds))
				}
				params[name] = v
			}
			return GTerm{"{" + name + "}", v}
		default:
			i := int64(r.Intn(10))
			return GTerm{fmt.Sprint(i), ast.Int(i)}
		}
	}
}

// gTerm returns a term, possibly a set.
func gTerm(r *rand.Rand, params Params, allowVar bool) GTerm {
	if r.Intn(6) != 0 {
		return gScalar(r, params, allowVar, true)
	}
	n := 1 + r.Intn(3)
	texts := []string{}
	val := ast.Term{K: ast.KSet}
	mixed := r.Intn(8) == 0 // the grammar allows any sequence; most sets are homogeneous
	for i, tries := 0, 0; i < n && tries < 60; tries++ {
		e := gScalar(r, params, false, r.Intn(4) == 0)
		if e.Val.K == ast.KSet {
			continue // a parameter bound to a set inside a set would nest
		}
		if !mixed && len(val.Set) > 0 && e.Val.K != val.Set[0].K {
			continue
		}
		dup := false
		for _, o := range val.Set {
			if o.Key() == e.Val.Key() {
				dup = true
			}
		}
		if dup {
			continue
		}
		texts = append(texts, e.Text)
		val.Set = append(val.Set, e.Val)
		i++
	}
	if len(texts) == 0 {
		return gScalar(r, params, allowVar, false)
	}
	return GTerm{"[" + strings.Join(texts, layoutSep(r, ",")) + "]", val}
}

func layoutSep(r *rand.Rand, s string) string {
	switch r.Intn(4) {
	case 0:
		return s
	case 1:
		return s + " "
	case 2:
		return " " + s + " "
	}
	return s + "\n\t"
}

// ---- expression trees ----------------------------------------------------------------------

// GNode is a syntax tree node; Paren nodes are explicit.
type GNode struct {
	Leaf *GTerm
	Un   int // ast.UNegate / ast.ULength / ast.UParens, -1 if none
	Bin  int
	Kids []*GNode
}

var gInfix = []int{ast.BOr, ast.BAnd, ast.BLessThan, ast.BGreaterThan, ast.BLessOrEqual, ast.BGreaterOrEqual, ast.BEqual, ast.BAdd, ast.BSub, ast.BMul, ast.BDiv}
var gMethods = []int{ast.BContains, ast.BPrefix, ast.BSuffix, ast.BRegex, ast.BIntersection, ast.BUnion}

func gTree(r *rand.Rand, params Params, depth int) *GNode {
	if depth <= 0 || r.Intn(5) == 0 {
		t := gTerm(r, params, true)
		return &GNode{Leaf: &t, Un: -1, Bin: -1}
	}
	switch r.Intn(10) {
	case 0:
		return &GNode{Un: ast.UNegate, Bin: -1, Kids: []*GNode{gTree(r, params, depth-1)}}
	case 1:
		return &GNode{Un: ast.ULength, Bin: -1, Kids: []*GNode{gTree(r, params, depth-1)}}
	case 2, 3:
		return &GNode{Un: -1, Bin: Pick(r, gMethods), Kids: []*GNode{gTree(r, params, depth-1), gTree(r, params, depth-1)}}
	default:
		return &GNode{Un: -1, Bin: Pick(r, gInfix), Kids: []*GNode{gTree(r, params, depth-1), gTree(r, params, depth-1)}}
	}
}

func (n *GNode) level() int {
	switch {
	case n.Leaf != nil, n.Un == ast.UParens:
		return lvAtom
	case n.Un == ast.UNegate:
		return lvNot
	case n.Un == ast.ULength:
		return lvMethod
	}
	return binLevel(n.Bin)
}

func paren(n *GNode) *GNode { return &GNode{Un: ast.UParens, Bin: -1, Kids: []*GNode{n}} }

// normalize inserts the parenthesis nodes that the documented precedence and associativity
// REQUIRE, and redundant ones with probability pRedundant.
func (n *GNode) normalize(r *rand.Rand, pRedundant float64) *GNode {
	// redundant parentheses come singly, doubled or tripled: ((x)) is two Parens operators
	again := func(g *GNode) *GNode {
		for r.Intn(3) == 0 {
			g = paren(g)
		}
		return g
	}
	if n.Leaf != nil {
		if r.Float64() < pRedundant/2 {
			return again(paren(n))
		}
		return n
	}
	kids := make([]*GNode, len(n.Kids))
	for i, k := range n.Kids {
		kids[i] = k.normalize(r, pRedundant)
	}
	out := &GNode{Un: n.Un, Bin: n.Bin, Kids: kids}
	wrapIf := func(i int, need bool) {
		if need {
			out.Kids[i] = paren(out.Kids[i])
		}
	}
	switch {
	case n.Un == ast.UParens:
	case n.Un == ast.UNegate, n.Un == ast.ULength:
		wrapIf(0, kids[0].level() < lvMethod)
	default:
		lv := binLevel(n.Bin)
		if lv == lvMethod {
			wrapIf(0, kids[0].level() < lvMethod) // the argument is a full expression: never needs parentheses
		} else {
			wrapIf(0, kids[0].level() < lv || (lv == lvCmp && kids[0].level() == lvCmp))
			wrapIf(1, kids[1].level() <= lv)
		}
	}
	if r.Float64() < pRedundant {
		return again(paren(out))
	}
	return out
}

// Postfix is the expected builder value.
func (n *GNode) Postfix() ast.Expr {
	if n.Leaf != nil {
		return ast.Expr{ast.OV(n.Leaf.Val)}
	}
	out := ast.Expr{}
	for _, k := range n.Kids {
		out = append(out, k.Postfix()...)
	}
	if n.Un >= 0 {
		return append(out, ast.OU(n.Un))
	}
	return append(out, ast.OB(n.Bin))
}

// tokens prints a normalized tree as a token list.
func (n *GNode) tokens() []string {
	switch {
	case n.Leaf != nil:
		return []string{n.Leaf.Text}
	case n.Un == ast.UParens:
		return append(append([]string{"("}, n.Kids[0].tokens()...), ")")
	case n.Un == ast.UNegate:
		return append([]string{"!"}, n.Kids[0].tokens()...)
	case n.Un == ast.ULength:
		return append(n.Kids[0].tokens(), ".", "length", "(", ")")
	}
	if binLevel(n.Bin) == lvMethod {
		out := append(n.Kids[0].tokens(), ".", methodNames[n.Bin], "(")
		out = append(out, n.Kids[1].tokens()...)
		return append(out, ")")
	}
	out := append(n.Kids[0].tokens(), ast.BinaryNames[n.Bin])
	return append(out, n.Kids[1].tokens()...)
}

func wordy(c byte) bool {
	return c >= 'a' && c <= 'z' || c >= 'A' && c <= 'Z' || c >= '0' && c <= '9' || c == '_' || c == ':' || c == '$' || c == '"' || c == '{' || c == '}'
}

// Layout joins tokens with random white space; a separator is mandatory only between two
// tokens that would otherwise lex as one.
func Layout(r *rand.Rand, toks []string) string {
	var sb strings.Builder
	for i, t := range toks {
		if i > 0 {
			prev := toks[i-1]
			must := wordy(prev[len(prev)-1]) && wordy(t[0])
			// "<" followed by "-" would lex as the arrow; "-" followed by digit is fine (no negative literals)
			if prev == "<" || (prev == "|" || prev == "&") {
				must = true
			}
			switch k := r.Intn(8); {
			case must || k < 4:
				sb.WriteString(" ")
			case k == 4:
				sb.WriteString("\t")
			case k == 5:
				sb.WriteString("\n  ")
			case k == 6:
				sb.WriteString("  ")
			}
		}
		sb.WriteString(t)
	}
	return sb.String()
}

// GExpr generates one expression: text tokens + expected postfix.
func GExpr(r *rand.Rand, params Params, depth int) ([]string, ast.Expr, *GNode) {
	t := gTree(r, params, depth).normalize(r, 0.12)
	return t.tokens(), t.Postfix(), t
}

// ---- predicates, rules, checks, policies ---------------------------------------------------

func gPred(r *rand.Rand, params Params, allowVar bool) ([]string, ast.Pred) {
	name := Pick(r, gNames)
	p := ast.Pred{Name: name, Terms: []ast.Term{}}
	toks := []string{name, "("}
	n := r.Intn(4)
	for i := 0; i < n; i++ {
		if i > 0 {
			toks = append(toks, ",")
		}
		t := gTerm(r, params, allowVar)
		toks = append(toks, t.Text)
		p.Terms = append(p.Terms, t.Val)
	}
	return append(toks, ")"), p
}

// gBody generates 1-4 rule elements (predicates and expressions interleaved).
func gBody(r *rand.Rand, params Params, depth int) ([]string, []ast.Pred, []ast.Expr) {
	toks := []string{}
	preds := []ast.Pred{}
	exprs := []ast.Expr{}
	n := 1 + r.Intn(4)
	for i := 0; i < n; i++ {
		if i > 0 {
			toks = append(toks, ",")
		}
		if r.Intn(5) < 3 {
			t, p := gPred(r, params, true)
			toks = append(toks, t...)
			preds = append(preds, p)
		} else {
			t, e, _ := GExpr(r, params, 1+r.Intn(depth))
			toks = append(toks, t...)
			exprs = append(exprs, e)
		}
	}
	return toks, preds, exprs
}

func GFact(r *rand.Rand, params Params) ([]string, ast.Pred) { return gPred(r, params, false) }

func GRule(r *rand.Rand, params Params, depth int) ([]string, ast.Rule) {
	ht, h := gPred(r, params, true)
	bt, preds, exprs := gBody(r, params, depth)
	return append(append(ht, "<-"), bt...), ast.Rule{Head: h, Body: preds, Exprs: exprs}
}

func gQueries(r *rand.Rand, params Params, depth int) ([]string, []ast.Rule) {
	toks := []string{}
	qs := []ast.Rule{}
	n := 1 + r.Intn(3)
	for i := 0; i < n; i++ {
		if i > 0 {
			toks = append(toks, "or")
		}
		bt, preds, exprs := gBody(r, params, depth)
		toks = append(toks, bt...)
		qs = append(qs, ast.Rule{Head: ast.Pred{Name: "query", Terms: []ast.Term{}}, Body: preds, Exprs: exprs})
	}
	return toks, qs
}

func GCheck(r *rand.Rand, params Params, depth int) ([]string, ast.Check) {
	t, qs := gQueries(r, params, depth)
	return append([]string{"check if"}, t...), ast.Check{Queries: qs}
}

func GPolicy(r *rand.Rand, params Params, depth int) ([]string, ast.Policy) {
	t, qs := gQueries(r, params, depth)
	if r.Intn(2) == 0 {
		return append([]string{"allow if"}, t...), ast.Policy{Allow: true, Queries: qs}
	}
	return append([]string{"deny if"}, t...), ast.Policy{Allow: false, Queries: qs}
}

// GBlock generates a whole block (elements terminated by ";"), optionally preceded by comments.
func GBlock(r *rand.Rand, params Params, depth int, withPolicies bool) (string, ast.AuthContent) {
	var out ast.AuthContent
	toks := []string{}
	n := r.Intn(6)
	for i := 0; i < n; i++ {
		k := r.Intn(3)
		if withPolicies {
			k = r.Intn(4)
		}
		switch k {
		case 0:
			t, f := GFact(r, params)
			toks = append(toks, t...)
			out.Facts = append(out.Facts, f)
		case 1:
			t, ru := GRule(r, params, depth)
			toks = append(toks, t...)
			out.Rules = append(out.Rules, ru)
		case 2:
			t, c := GCheck(r, params, depth)
			toks = append(toks, t...)
			out.Checks = append(out.Checks, c)
		default:
			t, p := GPolicy(r, params, depth)
			toks = append(toks, t...)
			out.Policies = append(out.Policies, p)
		}
		toks = append(toks, ";")
	}
	text := Layout(r, toks)
	if r.Intn(3) == 0 {
		text = "// a comment; with $tokens \"inside\"\n" + text
		if r.Intn(2) == 0 {
			text = "//second\n" + text
		}
	}
	return text, out
}
