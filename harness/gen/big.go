package gen

import (
	"fmt"
	"math/rand"
	"strings"

	"verif/harness/ast"
)

// Big shapes: content that crosses the size, count and encoding thresholds small pools never
// reach (a second varint byte at 128, powers of two, 16-bit and 32-bit widths, multi-byte and
// non-UTF-8 strings), built so that the verdict DEPENDS on the element beyond the threshold:
// the satisfiable check, the matching alternative, the allowing policy is always the last one.
// The predicate names are outside the typed schema, so random rules never join on them.

var BigCounts = []int{127, 128, 129, 255, 256, 257, 300}
var BigStrLens = []int{127, 128, 129, 255, 256, 257, 1000, 16383, 16384, 16385, 70000}
var BigWidths = []int{16, 17, 31, 32, 33, 64, 65, 128, 129}

// BigString returns a string of exactly n bytes in one of several flavours.
func BigString(n, flavour int) string {
	switch flavour % 5 {
	case 1: // a two-byte rune straddling the end
		if n >= 2 {
			return strings.Repeat("a", n-2) + "é"
		}
	case 2: // NUL and control bytes inside
		if n >= 3 {
			return "a\x00" + strings.Repeat("b", n-3) + "\x01"
		}
	case 3: // not UTF-8 (the schema is proto2: strings are byte strings on the wire)
		if n >= 2 {
			return strings.Repeat("c", n-2) + "\xff\xfe"
		}
	case 4: // three-byte runes throughout
		s := strings.Repeat("日", n/3)
		return s + strings.Repeat("x", n-len(s))
	}
	return strings.Repeat("a", n)
}

// Big is one big shape: content for a block plus, for some shapes, policies for the authorizer.
type Big struct {
	Label    string
	Facts    []ast.Pred
	Rules    []ast.Rule
	Checks   []ast.Check
	Policies []ast.Policy
}

func q(body []ast.Pred, exprs ...ast.Expr) ast.Rule {
	return ast.Rule{Head: ast.P("query"), Body: body, Exprs: exprs}
}

func chk(queries ...ast.Rule) ast.Check { return ast.Check{Queries: queries} }

func cmp(v string, code int, t ast.Term) ast.Expr {
	return ast.Expr{ast.OV(ast.Var(v)), ast.OV(t), ast.OB(code)}
}

// NumBigShapes is the number of shape families BigContent knows.
const NumBigShapes = 10

// BigContent draws one big shape. utf8Only keeps every string valid UTF-8 without control
// bytes (for paths that go through the text grammar). fail selects whether the element beyond
// the threshold is made unsatisfiable (so that the expected verdict is a refusal).
func BigContent(r *rand.Rand, shape int, utf8Only bool, fail bool) Big {
	n := Pick(r, BigCounts)
	tag := fmt.Sprintf("%c", 'a'+r.Intn(3)) // three name spaces so that two big shapes can share a token
	switch shape % NumBigShapes {
	case 0: // many facts, each with a fresh symbol; the check needs the last one
		b := Big{Label: fmt.Sprintf("facts-%d", n)}
		for i := 0; i < n; i++ {
			b.Facts = append(b.Facts, ast.P("bulk_"+tag, ast.Int(int64(i)), ast.Str(fmt.Sprintf("w%s%03d", tag, i))))
		}
		want := n - 1
		if fail {
			want = n
		}
		b.Checks = append(b.Checks,
			chk(q([]ast.Pred{ast.P("bulk_"+tag, ast.Int(int64(want)), ast.Var("s"))})),
			chk(q([]ast.Pred{ast.P("bulk_"+tag, ast.Var("i"), ast.Str(fmt.Sprintf("w%s%03d", tag, n-1)))})))
		b.Rules = append(b.Rules, ast.Rule{Head: ast.P("last_bulk_"+tag, ast.Var("s")),
			Body: []ast.Pred{ast.P("bulk_"+tag, ast.Var("i"), ast.Var("s"))}, Exprs: []ast.Expr{cmp("i", ast.BGreaterOrEqual, ast.Int(int64(n-1)))}})
		return b
	case 1: // one long string
		l := Pick(r, BigStrLens)
		fl := r.Intn(5)
		if utf8Only && (fl == 2 || fl == 3) {
			fl = 1
		}
		s := BigString(l, fl)
		b := Big{Label: fmt.Sprintf("strlen-%d-f%d", l, fl)}
		b.Facts = append(b.Facts, ast.P("long_"+tag, ast.Str(s)))
		wantLen := int64(l)
		if fail {
			wantLen++
		}
		tail := s[len(s)-2:]
		if fl == 4 {
			tail = s[len(s)-1:]
			if l%3 == 0 {
				tail = "日"
			}
		}
		b.Checks = append(b.Checks,
			chk(q([]ast.Pred{ast.P("long_"+tag, ast.Var("s"))},
				ast.Expr{ast.OV(ast.Var("s")), ast.OU(ast.ULength), ast.OV(ast.Int(wantLen)), ast.OB(ast.BEqual)})),
			chk(q([]ast.Pred{ast.P("long_"+tag, ast.Var("s"))}, cmp("s", ast.BSuffix, ast.Str(tail)))),
			chk(q([]ast.Pred{ast.P("long_"+tag, ast.Var("s"))}, cmp("s", ast.BEqual, ast.Str(s)))))
		return b
	case 2: // one big set, integers or strings; membership of the last member and the count
		b := Big{Label: fmt.Sprintf("set-%d", n)}
		set := ast.Term{K: ast.KSet}
		strs := r.Intn(2) == 0
		for i := 0; i < n; i++ {
			if strs {
				set.Set = append(set.Set, ast.Str(fmt.Sprintf("m%s%03d", tag, i)))
			} else {
				set.Set = append(set.Set, ast.Int(int64(i*3)))
			}
		}
		last := set.Set[n-1]
		if fail {
			if strs {
				last = ast.Str("m" + tag + "none")
			} else {
				last = ast.Int(1)
			}
		}
		b.Facts = append(b.Facts, ast.P("bigset_"+tag, set))
		b.Checks = append(b.Checks,
			chk(q([]ast.Pred{ast.P("bigset_"+tag, ast.Var("s"))}, cmp("s", ast.BContains, last))),
			chk(q([]ast.Pred{ast.P("bigset_"+tag, ast.Var("s"))},
				ast.Expr{ast.OV(ast.Var("s")), ast.OU(ast.ULength), ast.OV(ast.Int(int64(n))), ast.OB(ast.BEqual)})))
		return b
	case 3: // many checks; with fail the LAST one is unsatisfiable
		b := Big{Label: fmt.Sprintf("checks-%d", n)}
		for i := 0; i < n; i++ {
			if !(fail && i == n-1) {
				b.Facts = append(b.Facts, ast.P("idx_"+tag, ast.Int(int64(i))))
			}
			b.Checks = append(b.Checks, chk(q([]ast.Pred{ast.P("idx_"+tag, ast.Int(int64(i)))})))
		}
		return b
	case 4: // one check with many alternatives, only the last can hold
		m := Pick(r, BigWidths)
		b := Big{Label: fmt.Sprintf("alternatives-%d", m)}
		c := ast.Check{}
		for i := 0; i < m; i++ {
			c.Queries = append(c.Queries, q([]ast.Pred{ast.P("alt_"+tag, ast.Int(int64(i)))}))
		}
		if !fail {
			b.Facts = append(b.Facts, ast.P("alt_"+tag, ast.Int(int64(m-1))))
		} else {
			b.Facts = append(b.Facts, ast.P("alt_"+tag, ast.Int(int64(m))))
		}
		b.Checks = append(b.Checks, c)
		return b
	case 5: // a wide predicate; the check binds the last column
		m := Pick(r, BigWidths)
		b := Big{Label: fmt.Sprintf("terms-%d", m)}
		f := ast.P("wide_" + tag)
		at := ast.P("wide_" + tag)
		for i := 0; i < m; i++ {
			f.Terms = append(f.Terms, ast.Int(int64(i)))
			at.Terms = append(at.Terms, ast.Var(fmt.Sprintf("v%d", i)))
		}
		b.Facts = append(b.Facts, f)
		want := int64(m - 1)
		if fail {
			want = int64(m)
		}
		b.Checks = append(b.Checks, chk(q([]ast.Pred{at}, cmp(fmt.Sprintf("v%d", m-1), ast.BEqual, ast.Int(want)))))
		b.Rules = append(b.Rules, ast.Rule{Head: ast.P("wide_last_"+tag, ast.Var(fmt.Sprintf("v%d", m-1)), ast.Var("v0")), Body: []ast.Pred{at}})
		return b
	case 6: // a query with many expressions, the last one decides
		m := Pick(r, BigWidths)
		b := Big{Label: fmt.Sprintf("exprs-%d", m)}
		b.Facts = append(b.Facts, ast.P("val_"+tag, ast.Int(1)))
		qq := q([]ast.Pred{ast.P("val_"+tag, ast.Var("x"))})
		for i := 0; i < m-1; i++ {
			qq.Exprs = append(qq.Exprs, cmp("x", ast.BGreaterOrEqual, ast.Int(int64(-i))))
		}
		want := int64(1)
		if fail {
			want = 2
		}
		qq.Exprs = append(qq.Exprs, cmp("x", ast.BEqual, ast.Int(want)))
		b.Checks = append(b.Checks, chk(qq))
		rl := qq
		rl.Head = ast.P("val_ok_"+tag, ast.Var("x"))
		b.Rules = append(b.Rules, rl)
		return b
	case 7: // one long expression: $x + 1 + 1 ... == m + 1
		m := Pick(r, BigWidths)
		b := Big{Label: fmt.Sprintf("ops-%d", 2*m+3)}
		b.Facts = append(b.Facts, ast.P("cnt_"+tag, ast.Int(1)))
		e := ast.Expr{ast.OV(ast.Var("x"))}
		for i := 0; i < m; i++ {
			e = append(e, ast.OV(ast.Int(1)), ast.OB(ast.BAdd))
		}
		want := int64(m + 1)
		if fail {
			want++
		}
		e = append(e, ast.OV(ast.Int(want)), ast.OB(ast.BEqual))
		b.Checks = append(b.Checks, chk(q([]ast.Pred{ast.P("cnt_"+tag, ast.Var("x"))}, e)))
		return b
	case 8: // many rules in one pass, each with its own head name; the check needs the last
		b := Big{Label: fmt.Sprintf("rules-%d", n)}
		b.Facts = append(b.Facts, ast.P("seed_"+tag, ast.Int(7)))
		for i := 0; i < n; i++ {
			b.Rules = append(b.Rules, ast.Rule{Head: ast.P(fmt.Sprintf("out_%s%03d", tag, i), ast.Var("x")),
				Body: []ast.Pred{ast.P("seed_"+tag, ast.Var("x"))}})
		}
		want := n - 1
		if fail {
			want = n
		}
		b.Checks = append(b.Checks, chk(q([]ast.Pred{ast.P(fmt.Sprintf("out_%s%03d", tag, want), ast.Int(7))})))
		return b
	default: // many policies, the only matching one is the last and allows (or denies with fail)
		b := Big{Label: fmt.Sprintf("policies-%d", n)}
		b.Facts = append(b.Facts, ast.P("pol_"+tag, ast.Int(int64(n-1))))
		for i := 0; i < n; i++ {
			allow := i%2 == 1
			if i == n-1 {
				allow = !fail
			}
			b.Policies = append(b.Policies, ast.Policy{Allow: allow,
				Queries: []ast.Rule{q([]ast.Pred{ast.P("pol_"+tag, ast.Int(int64(i)))})}})
		}
		return b
	}
}

// AddTo appends the block part of a big shape to a block.
func (b Big) AddTo(blk *ast.Block) {
	blk.Facts = append(blk.Facts, b.Facts...)
	blk.Rules = append(blk.Rules, b.Rules...)
	blk.Checks = append(blk.Checks, b.Checks...)
}
