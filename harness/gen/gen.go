// Package gen holds the seeded generators: term pools that mix colliding small
// values with boundary values, a typed predicate schema, rules / checks /
// policies in the error-free fragment (plus deliberately erroring variants),
// tokens scenarios, and expression generators.
package gen

import (
	"fmt"
	"math"
	"math/rand"
	"strings"

	"verif/harness/ast"
)

// ---- pools -------------------------------------------------------------------------------

var SmallStr = []string{"a", "b", "read", "write", "file1", "file2", "/a/file1.txt", "/a/file2.txt", "admin", "Read", "", "é", "resource", "x", "100%", "/my%20files"}
var SmallInt = []int64{0, 1, 2, 3, 4, 10, -1}
var BoundInt = []int64{math.MinInt64, math.MinInt64 + 1, -1 << 32, -1 << 31, -2, -1, 0, 1, 2, 1 << 31, 1 << 32, math.MaxInt64 - 1, math.MaxInt64}
var SmallDate = []uint64{0, 1, 1000, 1600000000, 1700000000, 1 << 31}
var BoundDate = []uint64{0, 1, 1 << 31, 1 << 32, 1<<63 - 1, 1 << 63, math.MaxUint64}
var SmallBytes = [][]byte{{}, {0}, {1}, {0x41}, {0x41, 0x42}, {0xff, 0x00, 0x7f}}
var HardStr = []string{"", "a", "ab", "abc", "é", "日本", "a.b", "^a", "a$", "(", "[a-z]+", "\\", "a\"b", "read", "\x00", "a\nb", "aaaaaaaaaaaaaaaaaaaaaaaaaaaaaaaa", "%s", "%d%%", "50%off", "%!v(MISSING)", "caf\xe9", "\xff\xfe", "a\xc3"}

func Pick[T any](r *rand.Rand, xs []T) T { return xs[r.Intn(len(xs))] }

// Scalar returns a random scalar term of the given kind from the small (colliding) pools.
func Scalar(r *rand.Rand, k ast.Kind) ast.Term {
	switch k {
	case ast.KInt:
		return ast.Int(Pick(r, SmallInt))
	case ast.KStr:
		return ast.Str(Pick(r, SmallStr))
	case ast.KDate:
		return ast.Date(Pick(r, SmallDate))
	case ast.KBytes:
		return ast.Bytes(Pick(r, SmallBytes))
	case ast.KBool:
		return ast.Bool(r.Intn(2) == 0)
	}
	panic("gen: not a scalar kind")
}

// HardScalar draws from boundary pools.
func HardScalar(r *rand.Rand, k ast.Kind) ast.Term {
	switch k {
	case ast.KInt:
		if r.Intn(3) == 0 {
			return ast.Int(r.Int63() - r.Int63())
		}
		return ast.Int(Pick(r, BoundInt))
	case ast.KStr:
		return ast.Str(Pick(r, HardStr))
	case ast.KDate:
		return ast.Date(Pick(r, BoundDate))
	case ast.KBytes:
		return ast.Bytes(Pick(r, SmallBytes))
	case ast.KBool:
		return ast.Bool(r.Intn(2) == 0)
	}
	panic("gen: not a scalar kind")
}

var ScalarKinds = []ast.Kind{ast.KInt, ast.KStr, ast.KDate, ast.KBytes, ast.KBool}

// SetOf returns a duplicate-free set of n distinct scalars of kind k (n is reduced if the pool is small).
func SetOf(r *rand.Rand, k ast.Kind, n int, hard bool) ast.Term {
	seen := map[string]bool{}
	out := ast.Term{K: ast.KSet}
	for tries := 0; len(out.Set) < n && tries < 50; tries++ {
		var e ast.Term
		if hard {
			e = HardScalar(r, k)
		} else {
			e = Scalar(r, k)
		}
		if !seen[e.Key()] {
			seen[e.Key()] = true
			out.Set = append(out.Set, e)
		}
	}
	// the pools are small: top up with synthesized distinct values when a larger set is asked for
	for i := 0; len(out.Set) < n && k != ast.KBool; i++ {
		var e ast.Term
		switch k {
		case ast.KInt:
			e = ast.Int(int64(1000 + i))
		case ast.KStr:
			e = ast.Str(fmt.Sprintf("elem%d", i))
		case ast.KDate:
			e = ast.Date(uint64(5000 + i))
		default:
			e = ast.Bytes([]byte{byte(i), byte(7 * i), 0x42})
		}
		if !seen[e.Key()] {
			seen[e.Key()] = true
			out.Set = append(out.Set, e)
		}
	}
	return out
}

// ---- typed schema ------------------------------------------------------------------------

// Col is a column kind; sets are sets of strings or ints in the authorization scenarios.
type Col struct {
	K    ast.Kind
	Elem ast.Kind // for sets
}

type PredSig struct {
	Name string
	Cols []Col
}

var (
	cS  = Col{K: ast.KStr}
	cI  = Col{K: ast.KInt}
	cD  = Col{K: ast.KDate}
	cB  = Col{K: ast.KBool}
	cY  = Col{K: ast.KBytes}
	cSS = Col{K: ast.KSet, Elem: ast.KStr}
	cSI = Col{K: ast.KSet, Elem: ast.KInt}
)

// Schema mixes default-symbol names with fresh names; "resource" is also a string
// constant in the pool, so names and values collide in the symbol table.
var Schema = []PredSig{
	{"resource", []Col{cS}},
	{"operation", []Col{cS}},
	{"right", []Col{cS, cS}},
	{"owner", []Col{cS, cS}},
	{"user", []Col{cS}},
	{"time", []Col{cD}},
	{"level", []Col{cI}},
	{"p", []Col{cI}},
	{"q", []Col{cI, cI}},
	{"edge", []Col{cS, cS}},
	{"path", []Col{cS, cS}},
	{"flag", []Col{cB}},
	{"blob", []Col{cY}},
	{"tags", []Col{cS, cSS}},
	{"nums", []Col{cSI}},
	{"ok", []Col{}},
	{"can", []Col{cS, cS, cS}},
	{"x:y_Z", []Col{cI}},
}

// Universe narrows the pools for one case so that content collides.
type Universe struct {
	Preds []PredSig
	Str   []string
	Int   []int64
	Date  []uint64
}

func NewUniverse(r *rand.Rand) *Universe {
	u := &Universe{}
	n := 3 + r.Intn(5)
	perm := r.Perm(len(Schema))
	for _, i := range perm[:n] {
		u.Preds = append(u.Preds, Schema[i])
	}
	ns := 2 + r.Intn(4)
	for _, i := range r.Perm(len(SmallStr))[:ns] {
		u.Str = append(u.Str, SmallStr[i])
	}
	ni := 2 + r.Intn(3)
	for _, i := range r.Perm(len(SmallInt))[:ni] {
		u.Int = append(u.Int, SmallInt[i])
	}
	nd := 2 + r.Intn(2)
	for _, i := range r.Perm(len(SmallDate))[:nd] {
		u.Date = append(u.Date, SmallDate[i])
	}
	return u
}

func (u *Universe) scalar(r *rand.Rand, k ast.Kind) ast.Term {
	switch k {
	case ast.KStr:
		return ast.Str(Pick(r, u.Str))
	case ast.KInt:
		return ast.Int(Pick(r, u.Int))
	case ast.KDate:
		return ast.Date(Pick(r, u.Date))
	}
	return Scalar(r, k)
}

func (u *Universe) Const(r *rand.Rand, c Col) ast.Term {
	if c.K == ast.KSet {
		n := 1 + r.Intn(3)
		seen := map[string]bool{}
		out := ast.Term{K: ast.KSet}
		for tries := 0; len(out.Set) < n && tries < 20; tries++ {
			e := u.scalar(r, c.Elem)
			if !seen[e.Key()] {
				seen[e.Key()] = true
				out.Set = append(out.Set, e)
			}
		}
		return out
	}
	return u.scalar(r, c.K)
}

func (u *Universe) Fact(r *rand.Rand) ast.Pred {
	s := Pick(r, u.Preds)
	return u.FactOf(r, s)
}

func (u *Universe) FactOf(r *rand.Rand, s PredSig) ast.Pred {
	p := ast.Pred{Name: s.Name, Terms: make([]ast.Term, len(s.Cols))}
	for i, c := range s.Cols {
		p.Terms[i] = u.Const(r, c)
	}
	return p
}

func colTag(c Col) string {
	switch c.K {
	case ast.KStr:
		return "s"
	case ast.KInt:
		return "i"
	case ast.KDate:
		return "d"
	case ast.KBool:
		return "b"
	case ast.KBytes:
		return "y"
	case ast.KSet:
		if c.Elem == ast.KStr {
			return "ts"
		}
		return "ti"
	}
	return "v"
}

// typed variables: the name encodes the column type so joins stay well-typed
type tvar struct {
	name string
	col  Col
}

// Atom returns a body atom over signature s; each position is a constant (pConst)
// or a typed variable drawn from a small per-type namespace (so variables repeat).
func (u *Universe) Atom(r *rand.Rand, s PredSig, pConst float64, vars *[]tvar) ast.Pred {
	p := ast.Pred{Name: s.Name, Terms: make([]ast.Term, len(s.Cols))}
	for i, c := range s.Cols {
		if r.Float64() < pConst {
			p.Terms[i] = u.Const(r, c)
			continue
		}
		name := fmt.Sprintf("%s%d", colTag(c), r.Intn(2))
		p.Terms[i] = ast.Var(name)
		found := false
		for _, v := range *vars {
			if v.name == name {
				found = true
			}
		}
		if !found {
			*vars = append(*vars, tvar{name, c})
		}
	}
	return p
}

// BoolExpr returns a well-typed, error-free boolean expression over the bound variables.
func (u *Universe) BoolExpr(r *rand.Rand, vars []tvar) ast.Expr {
	if len(vars) == 0 {
		// closed expression
		a, b := Pick(r, u.Int), Pick(r, u.Int)
		return ast.Expr{ast.OV(ast.Int(a)), ast.OV(ast.Int(b)), ast.OB(Pick(r, []int{ast.BLessThan, ast.BLessOrEqual, ast.BEqual, ast.BGreaterThan, ast.BGreaterOrEqual}))}
	}
	v := Pick(r, vars)
	V := ast.OV(ast.Var(v.name))
	var e ast.Expr
	switch v.col.K {
	case ast.KInt:
		c := ast.OV(ast.Int(Pick(r, u.Int)))
		switch r.Intn(4) {
		case 0:
			e = ast.Expr{V, c, ast.OB(Pick(r, []int{ast.BLessThan, ast.BLessOrEqual, ast.BEqual, ast.BGreaterThan, ast.BGreaterOrEqual}))}
		case 1:
			e = ast.Expr{V, ast.OV(ast.Int(1)), ast.OB(ast.BAdd), c, ast.OB(ast.BLessOrEqual)}
		case 2:
			e = ast.Expr{V, ast.OV(ast.Int(2)), ast.OB(ast.BMul), ast.OU(ast.UParens), c, ast.OB(ast.BSub), ast.OV(ast.Int(0)), ast.OB(ast.BGreaterOrEqual)}
		default:
			s := ast.Term{K: ast.KSet}
			seen := map[int64]bool{}
			for _, x := range u.Int {
				if r.Intn(2) == 0 && !seen[x] {
					seen[x] = true
					s.Set = append(s.Set, ast.Int(x))
				}
			}
			if len(s.Set) == 0 {
				s.Set = append(s.Set, ast.Int(u.Int[0]))
			}
			e = ast.Expr{ast.OV(s), V, ast.OB(ast.BContains)}
		}
	case ast.KStr:
		c := ast.OV(ast.Str(Pick(r, u.Str)))
		switch r.Intn(6) {
		case 0:
			e = ast.Expr{V, c, ast.OB(ast.BEqual)}
		case 1:
			e = ast.Expr{V, ast.OV(ast.Str("/a")), ast.OB(ast.BPrefix)}
		case 2:
			e = ast.Expr{V, ast.OV(ast.Str(".txt")), ast.OB(ast.BSuffix)}
		case 3:
			e = ast.Expr{V, ast.OV(ast.Str("^[a-z]+[0-9]?$")), ast.OB(ast.BRegex)}
		case 4:
			e = ast.Expr{V, ast.OU(ast.ULength), ast.OV(ast.Int(Pick(r, []int64{0, 1, 4, 5}))), ast.OB(ast.BGreaterThan)}
		default:
			s := ast.Term{K: ast.KSet}
			for _, x := range u.Str {
				if r.Intn(2) == 0 {
					s.Set = append(s.Set, ast.Str(x))
				}
			}
			if len(s.Set) == 0 {
				s.Set = append(s.Set, ast.Str(u.Str[0]))
			}
			e = ast.Expr{ast.OV(s), V, ast.OB(ast.BContains)}
		}
	case ast.KDate:
		e = ast.Expr{V, ast.OV(ast.Date(Pick(r, u.Date))), ast.OB(Pick(r, []int{ast.BLessThan, ast.BLessOrEqual, ast.BGreaterThan, ast.BGreaterOrEqual, ast.BEqual}))}
	case ast.KBool:
		if r.Intn(2) == 0 {
			e = ast.Expr{V}
		} else {
			e = ast.Expr{V, ast.OU(ast.UNegate)}
		}
	case ast.KBytes:
		if r.Intn(2) == 0 {
			e = ast.Expr{V, ast.OV(ast.Bytes(Pick(r, SmallBytes))), ast.OB(ast.BEqual)}
		} else {
			e = ast.Expr{V, ast.OU(ast.ULength), ast.OV(ast.Int(1)), ast.OB(ast.BGreaterOrEqual)}
		}
	case ast.KSet:
		el := u.scalar(r, v.col.Elem)
		switch r.Intn(3) {
		case 0:
			e = ast.Expr{V, ast.OV(el), ast.OB(ast.BContains)}
		case 1:
			e = ast.Expr{V, ast.OU(ast.ULength), ast.OV(ast.Int(1)), ast.OB(ast.BGreaterThan)}
		default:
			e = ast.Expr{V, ast.OV(ast.SetOf(el)), ast.OB(ast.BUnion), ast.OU(ast.ULength), ast.OV(ast.Int(2)), ast.OB(ast.BGreaterOrEqual)}
		}
	}
	// optionally combine with a second clause
	if r.Intn(5) == 0 {
		e2 := u.BoolExpr(r, vars)
		e = append(append(e, e2...), ast.OB(Pick(r, []int{ast.BAnd, ast.BOr})))
	}
	return e
}

// ErrExpr returns an expression that is an error on every substitution.
func (u *Universe) ErrExpr(r *rand.Rand, vars []tvar) ast.Expr {
	switch r.Intn(4) {
	case 0:
		return ast.Expr{ast.OV(ast.Int(1)), ast.OV(ast.Int(0)), ast.OB(ast.BDiv), ast.OV(ast.Int(1)), ast.OB(ast.BEqual)}
	case 1:
		return ast.Expr{ast.OV(ast.Str("a")), ast.OV(ast.Int(1)), ast.OB(ast.BLessThan)}
	case 2:
		return ast.Expr{ast.OV(ast.Int(math.MaxInt64)), ast.OV(ast.Int(1)), ast.OB(ast.BAdd), ast.OV(ast.Int(0)), ast.OB(ast.BGreaterThan)}
	}
	return ast.Expr{ast.OV(ast.Str("a")), ast.OV(ast.Str("(")), ast.OB(ast.BRegex)}
}

// RuleOpts tunes rule generation.
type RuleOpts struct {
	PConst  float64 // probability of a constant in a body position
	PExpr   float64 // probability of an expression filter
	PErr    float64 // probability that the filter is a uniformly failing expression
	MaxBody int
}

var DefaultRuleOpts = RuleOpts{PConst: 0.3, PExpr: 0.4, PErr: 0, MaxBody: 3}

// Body generates 1..MaxBody atoms plus optional expressions; returns the typed variables bound.
func (u *Universe) Body(r *rand.Rand, o RuleOpts) ([]ast.Pred, []ast.Expr, []tvar) {
	n := 1 + r.Intn(o.MaxBody)
	vars := []tvar{}
	body := []ast.Pred{}
	for i := 0; i < n; i++ {
		body = append(body, u.Atom(r, Pick(r, u.Preds), o.PConst, &vars))
	}
	exprs := []ast.Expr{}
	if r.Float64() < o.PExpr {
		if r.Float64() < o.PErr {
			exprs = append(exprs, u.ErrExpr(r, vars))
		} else {
			exprs = append(exprs, u.BoolExpr(r, vars))
			if r.Intn(4) == 0 {
				exprs = append(exprs, u.BoolExpr(r, vars))
			}
		}
	}
	return body, exprs, vars
}

// Rule generates a range-restricted rule whose head is a schema predicate.
func (u *Universe) Rule(r *rand.Rand, o RuleOpts) ast.Rule {
	for tries := 0; ; tries++ {
		body, exprs, vars := u.Body(r, o)
		hs := Pick(r, u.Preds)
		head := ast.Pred{Name: hs.Name, Terms: make([]ast.Term, len(hs.Cols))}
		ok := true
		for i, c := range hs.Cols {
			// candidates: bound variables of the same column type
			cands := []tvar{}
			for _, v := range vars {
				if v.col == c {
					cands = append(cands, v)
				}
			}
			if len(cands) > 0 && r.Intn(5) != 0 {
				head.Terms[i] = ast.Var(Pick(r, cands).name)
			} else {
				head.Terms[i] = u.Const(r, c)
			}
		}
		if ok || tries > 10 {
			return ast.Rule{Head: head, Body: body, Exprs: exprs}
		}
	}
}

// TwinRule returns a rule with the SAME head and body as rl but another expression filter
// (two rules that differ only by their expressions are different rules).
func (u *Universe) TwinRule(r *rand.Rand, rl ast.Rule) (ast.Rule, bool) {
	vars := []tvar{}
	seen := map[string]bool{}
	for _, b := range rl.Body {
		for _, t := range b.Terms {
			if t.K != ast.KVar || seen[t.S] {
				continue
			}
			seen[t.S] = true
			var c Col
			switch {
			case strings.HasPrefix(t.S, "ts"):
				c = cSS
			case strings.HasPrefix(t.S, "ti"):
				c = cSI
			case strings.HasPrefix(t.S, "s"):
				c = cS
			case strings.HasPrefix(t.S, "i"):
				c = cI
			case strings.HasPrefix(t.S, "d"):
				c = cD
			case strings.HasPrefix(t.S, "b"):
				c = cB
			case strings.HasPrefix(t.S, "y"):
				c = cY
			default:
				continue
			}
			vars = append(vars, tvar{t.S, c})
		}
	}
	if len(vars) == 0 || len(rl.Body) == 0 {
		return ast.Rule{}, false
	}
	for tries := 0; tries < 6; tries++ {
		e := u.BoolExpr(r, vars)
		same := false
		for _, old := range rl.Exprs {
			if old.Key() == e.Key() {
				same = true
			}
		}
		if !same {
			return ast.Rule{Head: rl.Head, Body: rl.Body, Exprs: []ast.Expr{e}}, true
		}
	}
	return ast.Rule{}, false
}

// Query generates a check / policy query (head "query()").
func (u *Universe) Query(r *rand.Rand, o RuleOpts) ast.Rule {
	body, exprs, _ := u.Body(r, o)
	return ast.Rule{Head: ast.P("query"), Body: body, Exprs: exprs}
}

// Satisfiable biases queries towards content that exists: when non-empty, a query is
// with probability 0.6 a generalisation of one of these facts (some terms turned into variables).
func (u *Universe) QueryFrom(r *rand.Rand, o RuleOpts, known []ast.Pred) ast.Rule {
	if len(known) == 0 || r.Intn(10) >= 6 {
		return u.Query(r, o)
	}
	q := ast.Rule{Head: ast.P("query")}
	n := 1 + r.Intn(2)
	for i := 0; i < n; i++ {
		f := Pick(r, known)
		a := ast.Pred{Name: f.Name, Terms: make([]ast.Term, len(f.Terms))}
		for j, t := range f.Terms {
			if r.Intn(2) == 0 {
				a.Terms[j] = ast.Var(fmt.Sprintf("g%d_%d", i, j))
			} else {
				a.Terms[j] = t
			}
		}
		q.Body = append(q.Body, a)
	}
	return q
}

func (u *Universe) CheckFrom(r *rand.Rand, o RuleOpts, known []ast.Pred) ast.Check {
	n := 1
	if r.Intn(3) == 0 {
		n = 2 + r.Intn(2)
	}
	c := ast.Check{}
	for i := 0; i < n; i++ {
		c.Queries = append(c.Queries, u.QueryFrom(r, o, known))
	}
	return c
}

func (u *Universe) PolicyFrom(r *rand.Rand, o RuleOpts, known []ast.Pred) ast.Policy {
	p := ast.Policy{Allow: r.Intn(2) == 0}
	n := 1 + r.Intn(2)
	for i := 0; i < n; i++ {
		if r.Intn(8) == 0 {
			p.Queries = append(p.Queries, ast.Rule{Head: ast.P("query")})
			continue
		}
		p.Queries = append(p.Queries, u.QueryFrom(r, o, known))
	}
	return p
}

func (u *Universe) Check(r *rand.Rand, o RuleOpts) ast.Check {
	n := 1
	if r.Intn(3) == 0 {
		n = 2 + r.Intn(2)
	}
	c := ast.Check{}
	for i := 0; i < n; i++ {
		c.Queries = append(c.Queries, u.Query(r, o))
	}
	return c
}

func (u *Universe) Policy(r *rand.Rand, o RuleOpts) ast.Policy {
	p := ast.Policy{Allow: r.Intn(2) == 0}
	n := 1 + r.Intn(2)
	for i := 0; i < n; i++ {
		if r.Intn(6) == 0 {
			// always-matching query (empty body), like the library's default policies
			p.Queries = append(p.Queries, ast.Rule{Head: ast.P("query")})
			continue
		}
		p.Queries = append(p.Queries, u.Query(r, o))
	}
	return p
}

// BlockOpts tunes block generation.
type BlockOpts struct {
	MaxFacts, MaxRules, MaxChecks int
	Rule                          RuleOpts
	Context                       bool
}

var DefaultBlockOpts = BlockOpts{MaxFacts: 5, MaxRules: 2, MaxChecks: 2, Rule: DefaultRuleOpts}

func (u *Universe) Block(r *rand.Rand, o BlockOpts) ast.Block {
	b := ast.Block{}
	seen := map[string]bool{}
	for i, n := 0, r.Intn(o.MaxFacts+1); i < n; i++ {
		f := u.Fact(r)
		if !seen[f.Key()] {
			seen[f.Key()] = true
			b.Facts = append(b.Facts, f)
		}
	}
	for i, n := 0, r.Intn(o.MaxRules+1); i < n; i++ {
		b.Rules = append(b.Rules, u.Rule(r, o.Rule))
	}
	for i, n := 0, r.Intn(o.MaxChecks+1); i < n; i++ {
		b.Checks = append(b.Checks, u.Check(r, o.Rule))
	}
	if o.Context && r.Intn(3) == 0 {
		b.Context = Pick(r, []string{"ctx", "", "a b", "é"})
	}
	return b
}

func (u *Universe) Auth(r *rand.Rand, o BlockOpts, maxPol int) ast.AuthContent {
	b := u.Block(r, o)
	a := ast.AuthContent{Facts: b.Facts, Rules: b.Rules, Checks: b.Checks}
	for i, n := 0, r.Intn(maxPol+1); i < n; i++ {
		a.Policies = append(a.Policies, u.Policy(r, o.Rule))
	}
	return a
}

// Probes returns one all-variable query per schema predicate of the universe.
func (u *Universe) Probes() []ast.Rule {
	out := []ast.Rule{}
	for _, s := range u.Preds {
		p := ast.Pred{Name: s.Name, Terms: make([]ast.Term, len(s.Cols))}
		for i := range s.Cols {
			p.Terms[i] = ast.Var(fmt.Sprintf("v%d", i))
		}
		out = append(out, ast.Rule{Head: ast.Pred{Name: "probe_" + sanitize(s.Name), Terms: p.Terms}, Body: []ast.Pred{p}})
	}
	return out
}

func sanitize(s string) string {
	b := []byte(s)
	for i, c := range b {
		if !(c >= 'a' && c <= 'z' || c >= 'A' && c <= 'Z' || c >= '0' && c <= '9') {
			b[i] = '_'
		}
	}
	return string(b)
}

// Scenario is a token content plus an authorizer content over one universe.
type Scenario struct {
	U      *Universe
	Blocks []ast.Block
	Auth   ast.AuthContent
	Probes []ast.Rule
	Big    string // label of the big shape carried, if any
}

func NewScenario(r *rand.Rand, maxBlocks int, o BlockOpts) *Scenario {
	u := NewUniverse(r)
	s := &Scenario{U: u}
	nb := 1 + r.Intn(maxBlocks)
	known := []ast.Pred{}
	for i := 0; i < nb; i++ {
		b := u.Block(r, o)
		if i == 0 {
			known = append(known, b.Facts...)
		}
		s.Blocks = append(s.Blocks, b)
	}
	s.Auth = u.Auth(r, o, 3)
	// twin rules: same head and body, different expression filter (one scenario in three)
	if r.Intn(3) == 0 {
		for i := range s.Blocks {
			if len(s.Blocks[i].Rules) > 0 {
				if tw, ok := u.TwinRule(r, Pick(r, s.Blocks[i].Rules)); ok {
					s.Blocks[i].Rules = append(s.Blocks[i].Rules, tw)
				}
			}
		}
		if len(s.Auth.Rules) > 0 {
			if tw, ok := u.TwinRule(r, Pick(r, s.Auth.Rules)); ok {
				s.Auth.Rules = append(s.Auth.Rules, tw)
			}
		}
	}
	known = append(known, s.Auth.Facts...)
	// one scenario in six carries a big shape (gen/big.go) in one of its blocks or in the authorizer
	var big *Big
	bigAt := -1
	if r.Intn(6) == 0 {
		bc := BigContent(r, r.Intn(NumBigShapes), true, r.Intn(3) == 0)
		big = &bc
		bigAt = r.Intn(nb+1) - 1 // -1: the authorizer
		s.Big = bc.Label
	}
	// re-draw checks and policies so that a good share of them is satisfiable
	for i := range s.Blocks {
		k := known
		if i > 0 {
			k = append(append([]ast.Pred{}, known...), s.Blocks[i].Facts...)
		}
		for j := range s.Blocks[i].Checks {
			s.Blocks[i].Checks[j] = u.CheckFrom(r, o.Rule, k)
		}
	}
	for j := range s.Auth.Checks {
		s.Auth.Checks[j] = u.CheckFrom(r, o.Rule, known)
	}
	for j := range s.Auth.Policies {
		s.Auth.Policies[j] = u.PolicyFrom(r, o.Rule, known)
	}
	s.Probes = u.Probes()
	if big != nil {
		if bigAt >= 0 {
			big.AddTo(&s.Blocks[bigAt])
		} else {
			s.Auth.Facts = append(s.Auth.Facts, big.Facts...)
			s.Auth.Rules = append(s.Auth.Rules, big.Rules...)
			s.Auth.Checks = append(s.Auth.Checks, big.Checks...)
		}
		s.Auth.Policies = append(s.Auth.Policies, big.Policies...)
	}
	return s
}

// Texts renders blocks as canonical text lines (for evidence samples and witnesses).
func Texts(blocks []ast.Block) [][]string {
	out := [][]string{}
	for _, b := range blocks {
		l := []string{}
		for _, f := range b.Facts {
			l = append(l, f.Key())
		}
		for _, r := range b.Rules {
			l = append(l, r.Key())
		}
		for _, c := range b.Checks {
			l = append(l, c.Key())
		}
		if b.Context != "" {
			l = append(l, "context="+b.Context)
		}
		out = append(out, l)
	}
	return out
}

func AuthTexts(a ast.AuthContent) []string {
	l := Texts([]ast.Block{{Facts: a.Facts, Rules: a.Rules, Checks: a.Checks}})[0]
	for _, p := range a.Policies {
		l = append(l, p.Key())
	}
	return l
}
