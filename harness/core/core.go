// Package core is the check framework: seed-determined case lists, isolated
// worker processes with a BEGIN/END journal (so a process death is attributed
// to the case that caused it), three-valued verdicts, known-findings handling,
// race-log parsing and evidence writing.
package core

import (
	"crypto/sha256"
	"encoding/binary"
	"encoding/hex"
	"encoding/json"
	"fmt"
	"math/rand"
	"runtime/debug"
	"sort"
	"strings"
)

type Violation struct {
	Key     string `json:"key"`  // stable identity used for known-findings matching
	What    string `json:"what"` // one line for humans
	Witness any    `json:"witness,omitempty"`
	Idx     int    `json:"idx"`
}

// CaseOut is what a worker journals for one case.
type CaseOut struct {
	Idx     int            `json:"idx"`
	Evals   int            `json:"evals"`
	NT      []string       `json:"nt,omitempty"`  // hashed keys of distinct non-trivial items
	Cnt     map[string]int `json:"cnt,omitempty"` // counters / histograms
	Viol    []Violation    `json:"viol,omitempty"`
	Inconc  []string       `json:"inconc,omitempty"`
	Samples []any          `json:"samples,omitempty"`
}

// C is the per-case context handed to a property's Run function.
type C struct {
	Prop *Prop
	Tier string
	Seed int64
	Idx  int
	R    *rand.Rand
	out  CaseOut
	nt   map[string]bool
}

func (c *C) Thorough() bool { return c.Tier == "thorough" }

// Eval counts n executions of library code observed by a monitor.
func (c *C) Eval(n int) { c.out.Evals += n }

// NT records one distinct non-trivial item (by the property's stated rule).
func (c *C) NT(key string) {
	h := sha256.Sum256([]byte(key))
	k := hex.EncodeToString(h[:8])
	if !c.nt[k] {
		c.nt[k] = true
		c.out.NT = append(c.out.NT, k)
	}
}

func (c *C) Count(name string, n int) {
	if c.out.Cnt == nil {
		c.out.Cnt = map[string]int{}
	}
	c.out.Cnt[name] += n
}

func (c *C) Violate(key, what string, witness any) {
	// keep at most 20 violations per case, at most 3 per key
	n := 0
	for _, v := range c.out.Viol {
		if v.Key == key {
			n++
		}
	}
	c.Count("violations_raw", 1)
	if n >= 3 || len(c.out.Viol) >= 20 {
		return
	}
	c.out.Viol = append(c.out.Viol, Violation{Key: key, What: what, Witness: witness, Idx: c.Idx})
}

func (c *C) Inconc(reason string) {
	c.Count("inconclusive:"+reason, 1)
	if len(c.out.Inconc) < 5 {
		c.out.Inconc = append(c.out.Inconc, reason)
	}
}

// Sample offers an actual case for the evidence file (only the first few are kept).
func (c *C) Sample(v any) {
	if len(c.out.Samples) < 2 {
		c.out.Samples = append(c.out.Samples, v)
	}
}

// Prop describes one property check.
type Prop struct {
	ID          string
	Level       string // exploration | fault_enumeration
	Rule        string // how cases are generated and what makes one non-trivial
	Assumptions []string
	// NumCases returns the number of cases for a tier.
	NumCases func(tier string) int
	// RaceFrom: cases with index >= RaceFrom(tier) run in the -race build; <0 = none.
	RaceFrom func(tier string) int
	// Run executes one case.
	Run func(c *C)
	// Floor returns descriptions of coverage floors that were not met.
	Floor func(a *Agg) []string
	// MinCounts: counters that must reach at least the given value in a complete run (templates a
	// seeded change once needed are generated on purpose and counted, not left to chance).
	MinCounts map[string]int
	// Exhaustive reports whether the run enumerates a finite space completely.
	Exhaustive func(tier string) bool
	// CaseTimeoutS is the per-case watchdog (seconds); default 120.
	CaseTimeoutS int
	// Serial: run with one worker only (for timing-sensitive monitors).
	MaxWorkers int
}

var registry = map[string]*Prop{}

func Register(p *Prop) { registry[p.ID] = p }
func Lookup(id string) *Prop {
	return registry[id]
}
func IDs() []string {
	ids := []string{}
	for k := range registry {
		ids = append(ids, k)
	}
	sort.Strings(ids)
	return ids
}

// CaseSeed derives the per-case PRNG seed: H(seed, property, index).
func CaseSeed(seed int64, prop string, idx int) int64 {
	h := sha256.New()
	var b [8]byte
	binary.LittleEndian.PutUint64(b[:], uint64(seed))
	h.Write(b[:])
	h.Write([]byte(prop))
	binary.LittleEndian.PutUint64(b[:], uint64(idx))
	h.Write(b[:])
	s := h.Sum(nil)
	return int64(binary.LittleEndian.Uint64(s[:8]) &^ (1 << 63))
}

// RunCase runs one case in-process (with a last-resort recover) and returns its output.
func RunCase(p *Prop, tier string, seed int64, idx int) (out CaseOut) {
	c := &C{Prop: p, Tier: tier, Seed: seed, Idx: idx, nt: map[string]bool{}}
	c.R = rand.New(rand.NewSource(CaseSeed(seed, p.ID, idx)))
	c.out.Idx = idx
	defer func() {
		if r := recover(); r != nil {
			st := string(debug.Stack())
			c.Violate("uncaught-panic/"+PanicSite(st), fmt.Sprintf("panic escaped the case: %v", r), map[string]any{"panic": fmt.Sprint(r), "stack": Tail(st, 4000)})
		}
		out = c.out
	}()
	p.Run(c)
	return c.out
}

// PanicSite extracts the innermost frame of a stack dump that lies in the
// library under test ("biscuit-go"), without line numbers.
func PanicSite(stack string) string {
	lines := strings.Split(stack, "\n")
	for _, l := range lines {
		l = strings.TrimSpace(l)
		if strings.HasPrefix(l, "github.com/biscuit-auth/biscuit-go/") {
			f := strings.TrimPrefix(l, "github.com/biscuit-auth/biscuit-go/v2")
			if i := strings.LastIndex(f, "("); i > 0 {
				f = f[:i]
			}
			f = strings.TrimPrefix(f, "/")
			f = strings.TrimPrefix(f, ".")
			return f
		}
	}
	return "unknown-site"
}

func Tail(s string, n int) string {
	if len(s) <= n {
		return s
	}
	return s[len(s)-n:]
}

func Head(s string, n int) string {
	if len(s) <= n {
		return s
	}
	return s[:n]
}

// Guard runs f under recover and reports whether it panicked.
func Guard(f func()) (panicked bool, msg string, site string) {
	defer func() {
		if r := recover(); r != nil {
			panicked = true
			msg = fmt.Sprint(r)
			site = PanicSite(string(debug.Stack()))
		}
	}()
	f()
	return
}

func JSON(v any) string {
	b, err := json.Marshal(v)
	if err != nil {
		return fmt.Sprintf("%+v", v)
	}
	return string(b)
}

// Agg is the driver-side aggregate over all cases.
type Agg struct {
	Evals     int
	NT        map[string]bool
	Cnt       map[string]int
	Viol      []Violation
	Inconc    map[string]int
	Samples   []any
	CasesDone int
	Crashes   int

	sampleKinds map[string]int
}
