package core

import (
	"bufio"
	"encoding/json"
	"fmt"
	"os"
	"os/exec"
	"path/filepath"
	"regexp"
	"runtime"
	"sort"
	"strconv"
	"strings"
	"sync"
	"time"
)

// ---------------------------------------------------------------------------------------------
// worker side

// WorkerMain: vcheck worker <ID> <tier> <seed> <from> <to> <step> <journal>
func WorkerMain(args []string) int {
	if len(args) != 7 {
		fmt.Fprintln(os.Stderr, "usage: worker ID tier seed from to step journal")
		return 64
	}
	p := Lookup(args[0])
	if p == nil {
		fmt.Fprintln(os.Stderr, "unknown property", args[0])
		return 64
	}
	tier := args[1]
	seed, _ := strconv.ParseInt(args[2], 10, 64)
	from, _ := strconv.Atoi(args[3])
	to, _ := strconv.Atoi(args[4])
	step, _ := strconv.Atoi(args[5])
	jf, err := os.OpenFile(args[6], os.O_CREATE|os.O_WRONLY|os.O_APPEND, 0o644)
	if err != nil {
		fmt.Fprintln(os.Stderr, err)
		return 64
	}
	defer jf.Close()
	timeout := p.CaseTimeoutS
	if timeout == 0 {
		timeout = 180
	}
	for idx := from; idx < to; idx += step {
		fmt.Fprintf(jf, "B %d\n", idx)
		done := make(chan struct{})
		go func(idx int) {
			select {
			case <-done:
			case <-time.After(time.Duration(timeout) * time.Second):
				// generous wall-clock watchdog: inconclusive, never a violation
				fmt.Fprintf(jf, "W %d\n", idx)
				buf := make([]byte, 1<<20)
				n := runtime.Stack(buf, true)
				os.Stderr.Write(buf[:n])
				os.Exit(3)
			}
		}(idx)
		out := RunCase(p, tier, seed, idx)
		close(done)
		b, err := json.Marshal(out)
		if err != nil {
			// a witness that cannot be marshalled must not lose the verdict
			for i := range out.Viol {
				out.Viol[i].Witness = fmt.Sprintf("%+v", out.Viol[i].Witness)
			}
			out.Samples = nil
			b, _ = json.Marshal(out)
		}
		fmt.Fprintf(jf, "E %s\n", b)
	}
	return 0
}

// ---------------------------------------------------------------------------------------------
// driver side

type Finding struct {
	Property string `json:"property"`
	Key      string `json:"key"`
	Status   string `json:"status"` // open | fixed
	Commit   string `json:"commit,omitempty"`
	What     string `json:"what"`
}

func loadFindings(path string) []Finding {
	b, err := os.ReadFile(path)
	if err != nil {
		return nil
	}
	var fs []Finding
	if err := json.Unmarshal(b, &fs); err != nil {
		fmt.Fprintln(os.Stderr, "known_findings.json unreadable:", err)
		return nil
	}
	return fs
}

func matchFinding(fs []Finding, prop, key string) *Finding {
	for i := range fs {
		f := &fs[i]
		if f.Property != prop || f.Status != "open" {
			continue
		}
		if f.Key == key || (strings.HasSuffix(f.Key, "*") && strings.HasPrefix(key, strings.TrimSuffix(f.Key, "*"))) {
			return f
		}
	}
	return nil
}

type workerSpec struct {
	id         int
	from, step int
	race       bool
}

type Driver struct {
	P        *Prop
	Tier     string
	Seed     int64
	Bin      string // plain worker binary
	RaceBin  string // -race worker binary ("" if not built)
	VerifDir string // /verif
	WorkDir  string // scratch dir (removed by caller)
	Only     int    // >=0: run only this case (replay)
}

var raceHeader = "WARNING: DATA RACE"

func (d *Driver) Run() int {
	start := time.Now()
	p := d.P
	n := p.NumCases(d.Tier)
	raceFrom := -1
	if p.RaceFrom != nil {
		raceFrom = p.RaceFrom(d.Tier)
	}
	if raceFrom >= 0 && d.RaceBin == "" {
		fmt.Printf("INCONCLUSIVE property=%s race build missing\n", p.ID)
		return 2
	}
	workers := 16
	if w, err := strconv.Atoi(os.Getenv("VERIF_WORKERS")); err == nil && w > 0 {
		workers = w
	}
	if p.MaxWorkers > 0 && workers > p.MaxWorkers {
		workers = p.MaxWorkers
	}

	agg := &Agg{NT: map[string]bool{}, Cnt: map[string]int{}, Inconc: map[string]int{}}
	var mu sync.Mutex
	var wg sync.WaitGroup

	type seg struct {
		from, to int
		race     bool
	}
	segs := []seg{}
	if d.Only >= 0 {
		segs = append(segs, seg{d.Only, d.Only + 1, raceFrom >= 0 && d.Only >= raceFrom})
	} else if raceFrom < 0 {
		segs = append(segs, seg{0, n, false})
	} else {
		if raceFrom > 0 {
			segs = append(segs, seg{0, raceFrom, false})
		}
		segs = append(segs, seg{raceFrom, n, true})
	}
	raceDir := filepath.Join(d.WorkDir, "race")
	os.MkdirAll(raceDir, 0o755)

	wid := 0
	for _, sg := range segs {
		cnt := sg.to - sg.from
		w := workers
		if cnt < w {
			w = cnt
		}
		for k := 0; k < w; k++ {
			wg.Add(1)
			wid++
			go func(id, from, to, step int, race bool) {
				defer wg.Done()
				d.runStride(id, from, to, step, race, raceDir, agg, &mu)
			}(wid, sg.from+k, sg.to, w, sg.race)
		}
	}
	wg.Wait()

	// race reports
	raceReports := 0
	if raceFrom >= 0 {
		reps := parseRaceLogs(raceDir)
		raceReports = len(reps)
		seen := map[string]int{}
		for _, r := range reps {
			seen[r.key]++
			if seen[r.key] <= 2 {
				agg.Viol = append(agg.Viol, Violation{Key: "race/" + r.key, What: "data race reported by the Go race detector: " + r.key, Witness: map[string]any{"report": Head(r.text, 6000)}, Idx: -1})
			}
		}
		agg.Cnt["race_reports"] = raceReports
		agg.Cnt["race_distinct_pairs"] = len(seen)
	}

	// verdict
	findings := loadFindings(filepath.Join(d.VerifDir, "known_findings.json"))
	sort.SliceStable(agg.Viol, func(i, j int) bool { return agg.Viol[i].Idx < agg.Viol[j].Idx })
	os.MkdirAll(filepath.Join(d.VerifDir, "replays"), 0o755)
	knownPrinted := map[string]bool{}
	newViol := 0
	printed := 0
	seenKey := map[string]int{}
	for _, v := range agg.Viol {
		if f := matchFinding(findings, p.ID, v.Key); f != nil {
			if !knownPrinted[f.Key] {
				knownPrinted[f.Key] = true
				fmt.Printf("KNOWN-FINDING: property=%s %s (%s)\n", p.ID, f.What, f.Key)
			}
			continue
		}
		newViol++
		seenKey[v.Key]++
		if seenKey[v.Key] > 2 || printed >= 40 {
			continue
		}
		printed++
		rp := filepath.Join(d.VerifDir, "replays", fmt.Sprintf("%s-%s-seed%d-case%d-%d.json", p.ID, d.Tier, d.Seed, v.Idx, printed))
		rb, _ := json.MarshalIndent(map[string]any{"property": p.ID, "tier": d.Tier, "seed": d.Seed, "idx": v.Idx, "key": v.Key, "what": v.What, "witness": v.Witness}, "", " ")
		os.WriteFile(rp, rb, 0o644)
		fmt.Printf("VIOLATION property=%s replay=%s\n", p.ID, rp)
		fmt.Printf("  key=%s\n  %s\n", v.Key, Head(v.What, 600))
	}
	if newViol > printed {
		fmt.Printf("  (%d further violations not listed; distinct keys: %d)\n", newViol-printed, len(seenKey))
		keys := make([]string, 0, len(seenKey))
		for k := range seenKey {
			keys = append(keys, k)
		}
		sort.Strings(keys)
		for i, k := range keys {
			if i >= 400 {
				fmt.Printf("  ...\n")
				break
			}
			fmt.Printf("  key %s x%d\n", k, seenKey[k])
		}
	}

	unmet := []string{}
	if p.Floor != nil && d.Only < 0 {
		unmet = p.Floor(agg)
	}
	if d.Only < 0 {
		names := make([]string, 0, len(p.MinCounts))
		for k := range p.MinCounts {
			names = append(names, k)
		}
		sort.Strings(names)
		for _, k := range names {
			if agg.Cnt[k] < p.MinCounts[k] {
				unmet = append(unmet, fmt.Sprintf("counter %s = %d < %d", k, agg.Cnt[k], p.MinCounts[k]))
			}
		}
	}
	if d.Only < 0 && agg.CasesDone == 0 {
		unmet = append(unmet, "no case completed")
	}
	// every planned case ended (completed, or died and was attributed, or timed out and was counted):
	// a stride lost with its worker (binary or work directory gone, fork failure) is not "held"
	lostInc := 0
	for _, v := range agg.Inconc {
		lostInc += v
	}
	if d.Only < 0 && agg.CasesDone > 0 && agg.CasesDone+agg.Crashes+lostInc < n {
		unmet = append(unmet, fmt.Sprintf("only %d of %d cases ended (%d attributed deaths): worker strides were lost", agg.CasesDone, n, agg.Crashes))
	}

	// evidence
	if d.Only < 0 {
		d.writeEvidence(agg, n, newViol, len(knownPrinted), unmet, time.Since(start).Seconds())
	}

	inc := 0
	for _, v := range agg.Inconc {
		inc += v
	}
	fmt.Printf("%s %s seed=%d: cases=%d/%d evaluations=%d distinct_nontrivial=%d violations=%d known=%d inconclusive=%d crashes=%d wall=%.1fs\n",
		p.ID, d.Tier, d.Seed, agg.CasesDone, n, agg.Evals, len(agg.NT), newViol, len(knownPrinted), inc, agg.Crashes, time.Since(start).Seconds())
	if newViol > 0 {
		return 1
	}
	if len(unmet) > 0 {
		fmt.Printf("INCONCLUSIVE property=%s coverage floor not met: %s\n", p.ID, strings.Join(unmet, "; "))
		return 2
	}
	return 0
}

func (d *Driver) runStride(id, from, to, step int, race bool, raceDir string, agg *Agg, mu *sync.Mutex) {
	cur := from
	crashes := 0
	for cur < to {
		journal := filepath.Join(d.WorkDir, fmt.Sprintf("j-%d-%d.log", id, cur))
		stderrPath := filepath.Join(d.WorkDir, fmt.Sprintf("e-%d-%d.log", id, cur))
		stdoutPath := filepath.Join(d.WorkDir, fmt.Sprintf("o-%d-%d.log", id, cur))
		bin := d.Bin
		if race {
			bin = d.RaceBin
		}
		vlimit := "8000000"
		if race {
			vlimit = "unlimited"
		}
		sh := fmt.Sprintf("ulimit -v %s; exec %q worker %s %s %d %d %d %d %q >%q 2>%q", vlimit, bin, d.P.ID, d.Tier, d.Seed, cur, to, step, journal, stdoutPath, stderrPath)
		cmd := exec.Command("/bin/sh", "-c", sh)
		cmd.Env = append(os.Environ(), "GOTRACEBACK=all")
		if race {
			cmd.Env = append(cmd.Env, "GORACE=halt_on_error=0 exitcode=0 history_size=3 log_path="+filepath.Join(raceDir, fmt.Sprintf("r-%d", id)))
		}
		err := cmd.Run()
		lastBegun, watchdog := d.readJournal(journal, agg, mu)
		os.Remove(journal)
		if err == nil {
			os.Remove(stderrPath)
			os.Remove(stdoutPath)
			return
		}
		// the worker died: attribute to the case that was begun and not ended
		if lastBegun < 0 {
			mu.Lock()
			agg.Inconc["worker-failed-before-first-case"]++
			mu.Unlock()
			se, _ := os.ReadFile(stderrPath)
			fmt.Fprintf(os.Stderr, "worker %d failed before any case: %v\n%s\n", id, err, Tail(string(se), 2000))
			return
		}
		se, _ := os.ReadFile(stderrPath)
		stderrTail := Tail(string(se), 6000)
		mu.Lock()
		if watchdog {
			agg.Inconc["watchdog"]++
			agg.CasesDone++
		} else {
			agg.Crashes++
			agg.CasesDone++
			site := deathSite(string(se))
			agg.Viol = append(agg.Viol, Violation{
				Key:     "process-death/" + site,
				What:    fmt.Sprintf("worker process died during case %d (%v): %s", lastBegun, err, firstFatalLine(string(se))),
				Witness: map[string]any{"idx": lastBegun, "exit": err.Error(), "stderr_tail": stderrTail},
				Idx:     lastBegun,
			})
		}
		mu.Unlock()
		os.Remove(stderrPath)
		os.Remove(stdoutPath)
		crashes++
		if crashes > 200 {
			mu.Lock()
			agg.Inconc["too-many-crashes"]++
			mu.Unlock()
			return
		}
		cur = lastBegun + step
	}
}

var fatalRe = regexp.MustCompile(`(?m)^(panic: .*|fatal error: .*|runtime: .*out of memory.*)$`)

func firstFatalLine(stderr string) string {
	m := fatalRe.FindString(stderr)
	if m == "" {
		return Head(strings.TrimSpace(Tail(stderr, 300)), 300)
	}
	return Head(m, 300)
}

// deathSite: innermost library frame after the first "panic:" / "fatal error:" line.
func deathSite(stderr string) string {
	loc := fatalRe.FindStringIndex(stderr)
	if loc == nil {
		return "unknown"
	}
	kind := "panic"
	if strings.HasPrefix(stderr[loc[0]:], "fatal error") {
		kind = "fatal"
	}
	if strings.Contains(stderr[loc[0]:loc[1]], "out of memory") || strings.Contains(stderr[loc[0]:loc[1]], "cannot allocate") {
		return "out-of-memory"
	}
	return kind + "/" + PanicSite(stderr[loc[1]:])
}

func (d *Driver) readJournal(path string, agg *Agg, mu *sync.Mutex) (lastBegun int, watchdog bool) {
	lastBegun = -1
	f, err := os.Open(path)
	if err != nil {
		return
	}
	defer f.Close()
	sc := bufio.NewScanner(f)
	sc.Buffer(make([]byte, 1<<20), 1<<28)
	open := -1
	for sc.Scan() {
		line := sc.Text()
		switch {
		case strings.HasPrefix(line, "B "):
			open, _ = strconv.Atoi(line[2:])
		case strings.HasPrefix(line, "W "):
			watchdog = true
		case strings.HasPrefix(line, "E "):
			var out CaseOut
			if err := json.Unmarshal([]byte(line[2:]), &out); err != nil {
				continue
			}
			open = -1
			mu.Lock()
			agg.CasesDone++
			agg.Evals += out.Evals
			for _, k := range out.NT {
				agg.NT[k] = true
			}
			for k, v := range out.Cnt {
				agg.Cnt[k] += v
			}
			agg.Viol = append(agg.Viol, out.Viol...)
			for _, r := range out.Inconc {
				agg.Inconc[r]++
			}
			for _, s := range out.Samples {
				kind := "?"
				if m, ok := s.(map[string]any); ok {
					if k, ok := m["kind"].(string); ok {
						kind = k
					}
				}
				if agg.sampleKinds == nil {
					agg.sampleKinds = map[string]int{}
				}
				if agg.sampleKinds[kind] < 2 && len(agg.Samples) < 10 {
					agg.sampleKinds[kind]++
					agg.Samples = append(agg.Samples, s)
				}
			}
			mu.Unlock()
		}
	}
	return open, watchdog
}

type raceReport struct {
	key  string
	text string
}

var frameRe = regexp.MustCompile(`(?m)^  (\S+)\(.*\)$`)

// parseRaceLogs splits race-detector logs into reports and keys each by the
// unordered pair of innermost library frames of the two conflicting accesses.
func parseRaceLogs(dir string) []raceReport {
	out := []raceReport{}
	files, _ := filepath.Glob(filepath.Join(dir, "r-*"))
	for _, f := range files {
		b, err := os.ReadFile(f)
		if err != nil {
			continue
		}
		parts := strings.Split(string(b), "==================")
		for _, part := range parts {
			if !strings.Contains(part, raceHeader) {
				continue
			}
			out = append(out, raceReport{key: raceKey(part), text: strings.TrimSpace(part)})
		}
	}
	return out
}

func raceKey(rep string) string {
	// sections: "Write at ... by goroutine N:", "Previous read at ... by goroutine M:", then "Goroutine N (running) created at:"
	secs := regexp.MustCompile(`(?m)^(Write|Read|Previous write|Previous read|Atomic write|Atomic read|Previous atomic write|Previous atomic read) (at|of) .*$`).FindAllStringIndex(rep, -1)
	keys := []string{}
	for i, s := range secs {
		end := len(rep)
		if i+1 < len(secs) {
			end = secs[i+1][0]
		}
		if g := strings.Index(rep[s[1]:end], "\nGoroutine "); g >= 0 {
			end = s[1] + g
		}
		body := rep[s[1]:end]
		site := "non-library"
		for _, m := range frameRe.FindAllStringSubmatch(body, -1) {
			if strings.HasPrefix(m[1], "github.com/biscuit-auth/biscuit-go/") {
				site = strings.TrimPrefix(m[1], "github.com/biscuit-auth/biscuit-go/v2")
				site = strings.TrimPrefix(strings.TrimPrefix(site, "/"), ".")
				break
			}
		}
		keys = append(keys, site)
	}
	sort.Strings(keys)
	return strings.Join(keys, "|")
}

func (d *Driver) writeEvidence(agg *Agg, n, newViol, known int, unmet []string, wall float64) {
	p := d.P
	cnt := map[string]int{}
	for k, v := range agg.Cnt {
		cnt[k] = v
	}
	inc := map[string]int{}
	for k, v := range agg.Inconc {
		inc[k] = v
	}
	samples := agg.Samples
	if len(samples) == 0 {
		samples = []any{"(no sample recorded)"}
	}
	cov := map[string]any{
		"evaluations":         agg.Evals,
		"distinct_nontrivial": len(agg.NT),
		"rule":                p.Rule,
		"samples":             samples,
		"cases_planned":       n,
		"cases_completed":     agg.CasesDone,
		"counters":            cnt,
		"inconclusive":        inc,
		"worker_crashes":      agg.Crashes,
		"known_findings_seen": known,
		"floors_unmet":        unmet,
	}
	if p.Exhaustive != nil && p.Exhaustive(d.Tier) {
		cov["exhaustive"] = true
	}
	ev := map[string]any{
		"property_id": p.ID,
		"tier":        d.Tier,
		"seed":        d.Seed,
		"level":       p.Level,
		"coverage":    cov,
		"assumptions": p.Assumptions,
		"wall_s":      wall,
		"violations":  newViol,
	}
	b, _ := json.MarshalIndent(ev, "", " ")
	os.MkdirAll(filepath.Join(d.VerifDir, "evidence"), 0o755)
	os.WriteFile(filepath.Join(d.VerifDir, "evidence", p.ID+".json"), b, 0o644)
}
