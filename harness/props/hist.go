package props

import (
	"bytes"
	"encoding/hex"
	"fmt"
	"io"
	"math/rand"

	biscuit "github.com/biscuit-auth/biscuit-go/v2"

	"verif/harness/ast"
	"verif/harness/core"
	"verif/harness/gen"
	"verif/harness/lib"
	"verif/harness/wire"
)

// Shared machinery for the token-history properties (C07 C08 C09 C16 C17).

// Panel is a fixed-per-case list of authorizer contents plus probe queries; "authorization
// behaviour of a token" always means the vector of observations over the panel.
type Panel struct {
	Auths  []ast.AuthContent
	Probes []ast.Rule
}

func newPanel(r *rand.Rand, u *gen.Universe, n int, known []ast.Pred) *Panel {
	p := &Panel{Probes: u.Probes()}
	o := gen.BlockOpts{MaxFacts: 4, MaxRules: 1, MaxChecks: 1, Rule: gen.RuleOpts{PConst: 0.35, PExpr: 0.3, MaxBody: 2}}
	for i := 0; i < n; i++ {
		a := u.Auth(r, o, 2)
		k := append(append([]ast.Pred{}, known...), a.Facts...)
		for j := range a.Checks {
			a.Checks[j] = u.CheckFrom(r, o.Rule, k)
		}
		for j := range a.Policies {
			a.Policies[j] = u.PolicyFrom(r, o.Rule, k)
		}
		if len(a.Policies) == 0 || r.Intn(3) == 0 {
			a.Policies = append(a.Policies, ast.Policy{Allow: true, Queries: []ast.Rule{{Head: ast.P("query")}}})
		}
		p.Auths = append(p.Auths, a)
	}
	return p
}

// Behaviour observes a token over the panel (fresh authorizer per content).
func (p *Panel) Behaviour(b *biscuit.Biscuit, pub []byte) []string {
	out := make([]string, len(p.Auths))
	for i, a := range p.Auths {
		out[i] = lib.Observe(b, pub, a, p.Probes).Key()
	}
	return out
}

func (p *Panel) Classes(b *biscuit.Biscuit, pub []byte) []lib.Class {
	out := make([]lib.Class, len(p.Auths))
	for i, a := range p.Auths {
		out[i] = lib.Observe(b, pub, a, nil).Class
	}
	return out
}

// Snapshot is everything observable about a token.
type Snapshot struct {
	String    string   `json:"string"`
	Ser       string   `json:"ser"`
	Reloaded  string   `json:"reloaded_string"`
	RevIDs    []string `json:"rev_ids"`
	Behaviour []string `json:"behaviour"`
	Code      []string `json:"code"`
	KeyID     string   `json:"key_id"`
	Blocks    int      `json:"blocks"`
	Err       string   `json:"err,omitempty"`
}

func takeSnapshot(b *biscuit.Biscuit, pub []byte, p *Panel) Snapshot {
	var s Snapshot
	pi := lib.Try(func() {
		// Code() is observed before and after String(): printing is an operation like any other
		// and must not re-order or otherwise change what the token holds
		s.Code = b.Code()
		s.String = b.String()
		if again := b.Code(); core.JSON(again) != core.JSON(s.Code) {
			s.Err = fmt.Sprintf("Code() differs before and after String(): %v, then %v", s.Code, again)
			return
		}
		ser, err := b.Serialize()
		if err != nil {
			s.Err = "serialize: " + err.Error()
			return
		}
		s.Ser = hex.EncodeToString(ser)
		rb, err := biscuit.Unmarshal(ser)
		if err != nil {
			s.Err = "unmarshal: " + err.Error()
			return
		}
		s.Reloaded = rb.String()
		for _, id := range b.RevocationIds() {
			s.RevIDs = append(s.RevIDs, hex.EncodeToString(id))
		}
		if id := b.RootKeyID(); id != nil {
			s.KeyID = fmt.Sprint(*id)
		} else {
			s.KeyID = "absent"
		}
		s.Blocks = b.BlockCount()
		if p != nil {
			s.Behaviour = p.Behaviour(b, pub)
		}
	})
	if pi != nil {
		s.Err = "panic: " + pi.Msg + " at " + pi.Site
	}
	return s
}

// diffSnapshot names the first field that differs.
func diffSnapshot(a, b Snapshot) string {
	switch {
	case a.Err != b.Err:
		return "error:" + a.Err + "->" + b.Err
	case a.String != b.String:
		return "String()"
	case a.Ser != b.Ser:
		return "Serialize()"
	case a.Reloaded != b.Reloaded:
		return "Unmarshal(Serialize()).String()"
	case core.JSON(a.RevIDs) != core.JSON(b.RevIDs):
		return "RevocationIds()"
	case core.JSON(a.Code) != core.JSON(b.Code):
		return "Code()"
	case a.KeyID != b.KeyID:
		return "RootKeyID()"
	case a.Blocks != b.Blocks:
		return "BlockCount()"
	case core.JSON(a.Behaviour) != core.JSON(b.Behaviour):
		return "authorization behaviour over the panel"
	}
	return ""
}

// richBlock generates block content that exercises the wire format: every term kind, sets of
// every element kind, expressions with every operator code, default and fresh symbols, context.
func richBlock(r *rand.Rand, u *gen.Universe, shared []string) ast.Block {
	o := gen.BlockOpts{MaxFacts: 4, MaxRules: 2, MaxChecks: 2, Rule: gen.RuleOpts{PConst: 0.35, PExpr: 0.5, PErr: 0.05, MaxBody: 2}, Context: true}
	b := u.Block(r, o)
	if r.Intn(4) == 0 {
		return ast.Block{} // empty block
	}
	// a fact with one term of every kind
	if r.Intn(2) == 0 {
		f := ast.P("every_kind")
		for _, k := range gen.ScalarKinds {
			if r.Intn(2) == 0 {
				f.Terms = append(f.Terms, gen.HardScalar(r, k))
			} else {
				f.Terms = append(f.Terms, gen.Scalar(r, k))
			}
		}
		ek := gen.Pick(r, gen.ScalarKinds)
		f.Terms = append(f.Terms, gen.SetOf(r, ek, 1+r.Intn(3), r.Intn(2) == 0))
		b.Facts = append(b.Facts, f)
	}
	// every name of the default table, as a string, as a predicate name and as a variable name: none of
	// them may show up in a block's own table
	if r.Intn(4) == 0 {
		all := ast.P("all_defaults")
		for i, d := range wire.DefaultSymbols {
			all.Terms = append(all.Terms, ast.Str(d))
			if i%4 == r.Intn(4) {
				b.Facts = append(b.Facts, ast.P(d, ast.Str(d)))
				b.Rules = append(b.Rules, ast.Rule{Head: ast.P("named_"+d, ast.Var(d)), Body: []ast.Pred{ast.P(d, ast.Var(d))}})
			}
		}
		b.Facts = append(b.Facts, all)
	}
	// big shapes (gen/big.go): counts, lengths and widths beyond the small pools
	if r.Intn(6) == 0 {
		gen.BigContent(r, r.Intn(gen.NumBigShapes), false, r.Intn(3) == 0).AddTo(&b)
	}
	// symbols shared with other blocks of the same family
	if len(shared) > 0 && r.Intn(2) == 0 {
		b.Facts = append(b.Facts, ast.P(gen.Pick(r, shared), ast.Str(gen.Pick(r, shared))))
	}
	// a rule whose filter is an arbitrary well-typed tree (covers every operator code)
	if r.Intn(2) == 0 {
		env := map[string]ast.Term{}
		e := c06Tree(r, ast.KBool, gen.Pick(r, gen.ScalarKinds), 1+r.Intn(4), env)
		body := []ast.Pred{}
		for name, v := range env {
			body = append(body, ast.P("bind_"+v.K.String(), ast.Var(name)))
		}
		if len(body) == 0 {
			body = append(body, ast.P("ok"))
		}
		b.Rules = append(b.Rules, ast.Rule{Head: ast.P("derived", ast.Int(int64(r.Intn(3)))), Body: body, Exprs: []ast.Expr{e}})
	}
	seen := map[string]bool{}
	facts := b.Facts[:0:0]
	for _, f := range b.Facts {
		if !seen[f.Key()] {
			seen[f.Key()] = true
			facts = append(facts, f)
		}
	}
	b.Facts = facts
	return b
}

// Live is one token of a growing family.
type Live struct {
	T      *lib.Token
	Prov   []int // provenance id (signing event) per block
	Snap   Snapshot
	Origin string
	Ser    []byte
}

// Family is a set of live tokens produced by a history.
type Family struct {
	U      *gen.Universe
	Panel  *Panel
	Tokens []*Live
	Ops    []string
	nextEv int
	rng    io.Reader
	shared []string
}

func newFamily(r *rand.Rand, seed int64, label string, panelN int) *Family {
	u := gen.NewUniverse(r)
	f := &Family{U: u, rng: lib.NewDetRand(seed, "family:"+label), shared: []string{"shared_a", "shared_b", "file1"}}
	if panelN > 0 {
		f.Panel = newPanel(r, u, panelN, nil)
	}
	return f
}

func (f *Family) ev() int { f.nextEv++; return f.nextEv }

func (f *Family) add(l *Live, op string) {
	f.Tokens = append(f.Tokens, l)
	f.Ops = append(f.Ops, fmt.Sprintf("%s -> #%d", op, len(f.Tokens)-1))
}

// Root builds a new root token.
func (f *Family) Root(r *rand.Rand, seed int64, label string, blk ast.Block, keyID *uint32) (*Live, error) {
	_, priv := lib.KeyPair(seed, "root:"+label)
	t, err := lib.Build(priv, f.rng, []ast.Block{blk}, keyID)
	if err != nil {
		return nil, err
	}
	l := &Live{T: t, Prov: []int{f.ev()}, Origin: "build"}
	f.add(l, "build")
	return l, nil
}

func (f *Family) Append(parent int, blk ast.Block) (*Live, error) {
	p := f.Tokens[parent]
	t, err := p.T.Append(f.rng, blk)
	if err != nil {
		return nil, err
	}
	l := &Live{T: t, Prov: append(append([]int{}, p.Prov...), f.ev()), Origin: "append"}
	f.add(l, fmt.Sprintf("append(#%d)", parent))
	return l, nil
}

func (f *Family) Seal(parent int) (*Live, error) {
	p := f.Tokens[parent]
	t, err := p.T.Seal(f.rng)
	if err != nil {
		return nil, err
	}
	l := &Live{T: t, Prov: append([]int{}, p.Prov...), Origin: "seal"}
	f.add(l, fmt.Sprintf("seal(#%d)", parent))
	return l, nil
}

func (f *Family) Reload(parent int) (*Live, error) {
	p := f.Tokens[parent]
	t, err := p.T.Reload()
	if err != nil {
		return nil, err
	}
	l := &Live{T: t, Prov: append([]int{}, p.Prov...), Origin: "reload"}
	f.add(l, fmt.Sprintf("reload(#%d)", parent))
	return l, nil
}

// randomHistory grows a family with n derivation steps.
func (f *Family) randomHistory(c *core.C, n int, keyID *uint32, mkBlock func() ast.Block) bool {
	r := c.R
	if _, err := f.Root(r, c.Seed, fmt.Sprintf("%s-%d", c.Prop.ID, c.Idx), mkBlock(), keyID); err != nil {
		c.Violate("build-refused", "builder refused generated content: "+err.Error(), nil)
		return false
	}
	for i := 0; i < n; i++ {
		p := r.Intn(len(f.Tokens))
		var err error
		op := ""
		switch k := r.Intn(10); {
		case k < 5:
			if f.Tokens[p].T.Sealed || len(f.Tokens[p].T.Blocks) >= 5 {
				continue
			}
			op = "append"
			_, err = f.Append(p, mkBlock())
		case k < 7:
			if f.Tokens[p].T.Sealed {
				continue
			}
			op = "seal"
			_, err = f.Seal(p)
		default:
			op = "reload"
			_, err = f.Reload(p)
		}
		if err != nil {
			c.Violate("derivation-refused/"+op, fmt.Sprintf("%s on a library-made token failed: %v", op, err), map[string]any{"ops": f.Ops})
			return false
		}
	}
	return true
}

func sameBytes(a, b []byte) bool { return bytes.Equal(a, b) }
