package props

import (
	"fmt"
	"math"
	"math/rand"
	"strings"

	biscuit "github.com/biscuit-auth/biscuit-go/v2"
	"github.com/biscuit-auth/biscuit-go/v2/parser"

	"verif/harness/ast"
	"verif/harness/core"
	"verif/harness/gen"
	"verif/harness/lib"
	"verif/harness/ref"
)

// C04 - the authorization verdict follows the specified decision procedure.
// Oracle: R5 (ref.Authorize), class for class.

var c04Opts = gen.BlockOpts{MaxFacts: 5, MaxRules: 2, MaxChecks: 2, Rule: gen.RuleOpts{PConst: 0.35, PExpr: 0.35, PErr: 0.04, MaxBody: 2}}

// buildScenarioToken builds the token of a scenario; returns nil when the builder refuses the content.
func buildScenarioToken(seed int64, label string, blocks []ast.Block) (*lib.Token, error) {
	_, priv := lib.KeyPair(seed, "root:"+label)
	rng := lib.NewDetRand(seed, "rng:"+label)
	return lib.Build(priv, rng, blocks, nil)
}

// observeVia authorizes with content entered through the builder structs or through parsed text.
// observeViaSnapshot enters the content into a first authorizer, saves it with SerializePolicies
// and authorizes with a second authorizer that loaded the bytes.
func observeViaSnapshot(tok *lib.Token, a ast.AuthContent) lib.Obs {
	var o lib.Obs
	pi := lib.Try(func() {
		a1, err := tok.B.AuthorizerFor(biscuit.WithSingularRootPublicKey(tok.Pub), lib.BigLimits())
		if err != nil {
			o = lib.Obs{Class: lib.FAIL, Err: "authorizer: " + err.Error()}
			return
		}
		lib.AddContent(a1, a)
		snap, err := a1.SerializePolicies()
		if err != nil {
			o = lib.Obs{Class: "SNAPSHOT-ERROR", Err: err.Error()}
			return
		}
		a2, err := tok.B.AuthorizerFor(biscuit.WithSingularRootPublicKey(tok.Pub), lib.BigLimits())
		if err != nil {
			o = lib.Obs{Class: lib.FAIL, Err: "authorizer: " + err.Error()}
			return
		}
		if err := a2.LoadPolicies(snap); err != nil {
			o = lib.Obs{Class: "SNAPSHOT-ERROR", Err: err.Error()}
			return
		}
		o = lib.ObserveOn(a2, ast.AuthContent{}, nil)
	})
	if pi != nil {
		o = lib.Obs{Class: lib.PANIC, Panic: pi}
	}
	return o
}

func observeVia(tok *lib.Token, a ast.AuthContent, probes []ast.Rule, viaText bool) lib.Obs {
	if !viaText {
		return lib.Observe(tok.B, tok.Pub, a, probes)
	}
	var o lib.Obs
	pi := lib.Try(func() {
		az, err := tok.B.AuthorizerFor(biscuit.WithSingularRootPublicKey(tok.Pub), lib.BigLimits())
		if err != nil {
			o = lib.Obs{Class: lib.FAIL, Err: "authorizer: " + err.Error()}
			return
		}
		pa, err := parser.FromStringAuthorizer(gen.AuthText(a))
		if err != nil {
			o = lib.Obs{Class: "PARSE-ERROR", Err: err.Error()}
			return
		}
		az.AddAuthorizer(pa)
		o = lib.ObserveOn(az, ast.AuthContent{}, probes)
	})
	if pi != nil {
		o = lib.Obs{Class: lib.PANIC, Panic: pi}
	}
	return o
}

func c04Check(c *core.C, tag string, tok *lib.Token, a ast.AuthContent, viaText bool) (string, bool) {
	c.Eval(1)
	d := ref.Authorize(tok.Blocks, a)
	if d.Class == "" {
		c.Count("no_verdict:"+d.NoVerdict, 1)
		return "", false
	}
	o := observeVia(tok, a, nil, viaText)
	wit := func() any {
		return map[string]any{"variant": tag, "via_text": viaText, "token_blocks": tok.Blocks, "authorizer": a, "reference": d.Class, "reference_failed_checks": d.FailedChecks, "reference_policy": d.PolicyIdx, "library": o}
	}
	if o.Class == lib.PANIC {
		c.Violate("authorize-panic/"+o.Panic.Site, "Authorize panicked: "+o.Panic.Msg, wit())
		return d.Class, true
	}
	if o.Class == lib.LIMIT {
		c.Inconc("limit sentinel under large limits")
		return d.Class, true
	}
	if o.Class == "PARSE-ERROR" {
		c.Violate("printed-content-does-not-parse", "text printed from the documented grammar was rejected: "+o.Err, map[string]any{"text": gen.AuthText(a), "err": o.Err})
		return d.Class, true
	}
	if string(o.Class) != d.Class {
		c.Violate(fmt.Sprintf("verdict/%s-where-%s", o.Class, d.Class), fmt.Sprintf("library says %s, decision procedure says %s (%s)", o.Class, d.Class, d.Signature), wit())
	}
	c.Count("class_"+d.Class, 1)
	c.NT("sig/" + d.Signature)
	return d.Class, true
}

// c04Reused drives ONE authorizer through three evaluations: the first half of content a, then
// the second half added on top (no Reset in between: the verdict must be the one of the whole
// of a), then Reset and the neighbour b. Every verdict is decided by the reference on the
// content the authorizer holds at that moment.
func c04Reused(c *core.C, tok *lib.Token, a, b ast.AuthContent) {
	h := func(n int) int { return (n + 1) / 2 }
	// all authorizer rules go into the second half: the library drops the authorizer's rules at
	// the end of an Authorize (World.ResetRules), and no property says what an authorizer rule
	// added before one Authorize means for a later one - see DESIGN 7.4
	p1 := ast.AuthContent{Facts: a.Facts[:h(len(a.Facts))], Rules: a.Rules[:0], Checks: a.Checks[:h(len(a.Checks))], Policies: a.Policies[:h(len(a.Policies))]}
	p2 := ast.AuthContent{Facts: a.Facts[h(len(a.Facts)):], Rules: a.Rules, Checks: a.Checks[h(len(a.Checks)):], Policies: a.Policies[h(len(a.Policies)):]}
	whole := ast.AuthContent{Facts: append(append([]ast.Pred{}, p1.Facts...), p2.Facts...), Rules: append(append([]ast.Rule{}, p1.Rules...), p2.Rules...),
		Checks: append(append([]ast.Check{}, p1.Checks...), p2.Checks...), Policies: append(append([]ast.Policy{}, p1.Policies...), p2.Policies...)}
	want := []ref.Decision{ref.Authorize(tok.Blocks, p1), ref.Authorize(tok.Blocks, whole), ref.Authorize(tok.Blocks, b)}
	for _, d := range want {
		if d.Class == "" {
			c.Count("no_verdict_reused:"+d.NoVerdict, 1)
			return
		}
	}
	c.Eval(3)
	got := make([]lib.Obs, 3)
	pi := lib.Try(func() {
		az, err := tok.B.AuthorizerFor(biscuit.WithSingularRootPublicKey(tok.Pub), lib.BigLimits())
		if err != nil {
			got[0] = lib.Obs{Class: lib.FAIL, Err: "authorizer: " + err.Error()}
			got[1], got[2] = got[0], got[0]
			return
		}
		got[0] = lib.ObserveOn(az, p1, nil)
		got[1] = lib.ObserveOn(az, p2, nil)
		az.Reset()
		got[2] = lib.ObserveOn(az, b, nil)
	})
	if pi != nil {
		c.Violate("authorize-panic/"+pi.Site, "re-used authorizer panicked: "+pi.Msg, map[string]any{"token_blocks": tok.Blocks, "first_half": p1, "second_half": p2, "after_reset": b})
		return
	}
	steps := []string{"first-half", "second-half-added", "after-reset"}
	for i, d := range want {
		if got[i].Class == lib.LIMIT || got[i].Class == lib.PANIC {
			c.Count("reused_step_without_verdict", 1)
			continue
		}
		if string(got[i].Class) != d.Class {
			c.Violate(fmt.Sprintf("verdict-on-reused-authorizer/%s/%s-where-%s", steps[i], got[i].Class, d.Class),
				fmt.Sprintf("one authorizer, step %q: library says %s, decision procedure says %s (%s)", steps[i], got[i].Class, d.Class, d.Signature),
				map[string]any{"token_blocks": tok.Blocks, "first_half": p1, "second_half": p2, "after_reset": b, "step": steps[i], "library": got, "reference": []string{want[0].Class, want[1].Class, want[2].Class}})
		}
	}
	c.Count("reused_authorizer_sequences", 1)
}

// c04NonBoolean: an expression that evaluates, without error, to something that is not a boolean
// (an integer, a string length, a set) makes nothing true: a check made of it fails, an allow
// policy made of it does not match. (Whether a library treats it as false or as an error is
// left open - the reference gives no verdict there - but "satisfied" is excluded.)
func c04NonBoolean(c *core.C, tok *lib.Token) {
	r := c.R
	nb := []ast.Expr{
		{ast.OV(ast.Int(1)), ast.OV(ast.Int(2)), ast.OB(int(ast.BAdd))},
		{ast.OV(ast.Str("abc")), ast.OU(int(ast.ULength))},
		{ast.OV(ast.SetOf(ast.Int(1), ast.Int(2))), ast.OV(ast.SetOf(ast.Int(2))), ast.OB(int(ast.BIntersection))},
		{ast.OV(ast.Str("a")), ast.OV(ast.Str("b")), ast.OB(int(ast.BAdd))},
		{ast.OV(ast.Int(0))},
		{ast.OV(ast.Str("true"))},
	}[r.Intn(6)]
	q := ast.Rule{Head: ast.P("query"), Exprs: []ast.Expr{nb}}
	cases := []struct {
		name string
		a    ast.AuthContent
	}{
		{"check", ast.AuthContent{Checks: []ast.Check{{Queries: []ast.Rule{q}}}, Policies: []ast.Policy{allowAll}}},
		{"allow-policy", ast.AuthContent{Policies: []ast.Policy{{Allow: true, Queries: []ast.Rule{q}}}}},
	}
	base := lib.Observe(tok.B, tok.Pub, ast.AuthContent{Policies: []ast.Policy{allowAll}}, nil)
	for _, k := range cases {
		c.Eval(1)
		o := lib.Observe(tok.B, tok.Pub, k.a, nil)
		if o.Class == lib.OK {
			c.Violate("non-boolean-expression-satisfies/"+k.name, fmt.Sprintf("%s whose only expression is %s (not a boolean): the request is authorized", k.name, nb.Key()), map[string]any{"token_blocks": tok.Blocks, "expression": nb.Key(), "authorizer": k.a, "same_token_with_allow_all": base.Class})
		}
		c.Count("non_boolean_expression_cases", 1)
	}
}

// c04BlockFeedsAuthorizerRule: the scope of a later block is the authority-level closure plus the
// block's OWN facts and rules. An authorizer rule therefore never fires on a fact that only a
// later block carries: the block's check that asks for the rule's head fails, and the verdict is
// the reference's for the content built here.
func c04BlockFeedsAuthorizerRule(c *core.C, tok *lib.Token, a ast.AuthContent) {
	if len(tok.Blocks) < 1 {
		return
	}
	x := ast.Var("x")
	blocks := append([]ast.Block{}, tok.Blocks...)
	carrier := ast.Block{Facts: []ast.Pred{ast.P("member_only_in_block", ast.Str("alice"))}, Checks: []ast.Check{{Queries: []ast.Rule{{Head: ast.P("query"), Body: []ast.Pred{ast.P("admin_by_authorizer_rule", ast.Str("alice"))}}}}}}
	blocks = append(blocks, carrier)
	b := ast.AuthContent{Facts: a.Facts, Rules: append(append([]ast.Rule{}, a.Rules...), ast.Rule{Head: ast.P("admin_by_authorizer_rule", x), Body: []ast.Pred{ast.P("member_only_in_block", x)}}), Checks: a.Checks, Policies: a.Policies}
	t2, err := buildScenarioToken(c.Seed, fmt.Sprintf("c04-bf-%d-%d", c.Idx, len(blocks)), blocks)
	if err != nil {
		return
	}
	c04Check(c, "block-fact-feeds-authorizer-rule", t2, b, false)
	c.Count("block_feeds_authorizer_rule_cases", 1)
}

// c04StringsAndQueries: (1) checks on the byte length of strings with non-ASCII characters,
// decided by the reference; (2) Authorizer.Query with expressions whose string literals the
// authorizer has never seen - the answers are the reference's.
func c04StringsAndQueries(c *core.C, tok *lib.Token) {
	r := c.R
	words := []string{"café", "日本語", "naïve", "plain", "Ünïcode", ""}
	w := words[r.Intn(len(words))]
	sv := ast.Var("s")
	lenIs := func(n int) ast.Rule {
		return ast.Rule{Head: ast.P("query"), Body: []ast.Pred{ast.P("c04_word", sv)}, Exprs: []ast.Expr{{ast.OV(sv), ast.OU(int(ast.ULength)), ast.OV(ast.Int(int64(n))), ast.OB(int(ast.BEqual))}}}
	}
	for _, n := range []int{len(w), len([]rune(w))} {
		a := ast.AuthContent{Facts: []ast.Pred{ast.P("c04_word", ast.Str(w))}, Checks: []ast.Check{{Queries: []ast.Rule{lenIs(n)}}}, Policies: []ast.Policy{allowAll}}
		c04Check(c, "string-length", tok, a, false)
	}
	authorizerQueriesWithFreshLiterals(c)
}

// authorizerQueriesWithFreshLiterals: Authorizer.Query with expressions whose string literals the
// authorizer has never seen; the answers are the reference's (shared by C04 and C06).
func authorizerQueriesWithFreshLiterals(c *core.C) {
	r := c.R
	// queries with literals nobody has interned yet
	pv := ast.Var("p")
	facts := []ast.Pred{ast.P("c04_path", ast.Str("/etc/passwd")), ast.P("c04_path", ast.Str("/home/alice/notes.txt")), ast.P("c04_path", ast.Str("four"))}
	qs := []ast.Rule{
		{Head: ast.P("ans", pv), Body: []ast.Pred{ast.P("c04_path", pv)}, Exprs: []ast.Expr{{ast.OV(pv), ast.OV(ast.Str(fmt.Sprintf("/etc/%s", ""))), ast.OB(int(ast.BPrefix))}}},
		{Head: ast.P("ans", pv), Body: []ast.Pred{ast.P("c04_path", pv)}, Exprs: []ast.Expr{{ast.OV(pv), ast.OV(ast.Str(".txt")), ast.OB(int(ast.BSuffix))}}},
		{Head: ast.P("ans", pv), Body: []ast.Pred{ast.P("c04_path", pv)}, Exprs: []ast.Expr{{ast.OV(pv), ast.OV(ast.Str("alice")), ast.OB(int(ast.BContains))}}},
		{Head: ast.P("ans", pv), Body: []ast.Pred{ast.P("c04_path", pv)}, Exprs: []ast.Expr{{ast.OV(pv), ast.OV(ast.Str("^/home/[a-z]+/")), ast.OB(int(ast.BRegex))}}},
		{Head: ast.P("ans", pv), Body: []ast.Pred{ast.P("c04_path", pv)}, Exprs: []ast.Expr{{ast.OV(ast.Str("fo")), ast.OV(ast.Str("ur")), ast.OB(int(ast.BAdd)), ast.OV(pv), ast.OB(int(ast.BEqual))}}},
		{Head: ast.P("ans", pv), Body: []ast.Pred{ast.P("c04_path", pv)}, Exprs: []ast.Expr{{ast.OV(ast.Str("a literal only the query has")), ast.OU(int(ast.ULength)), ast.OV(ast.Int(28)), ast.OB(int(ast.BEqual))}}},
	}
	fs := ref.Facts{}
	for _, f := range facts {
		fs[f.Key()] = f
	}
	// (a plain token of its own: the scenario token may carry rules that fail on purpose)
	plain, err := buildScenarioToken(c.Seed, fmt.Sprintf("c04-plain-%d", c.Idx), []ast.Block{{Facts: []ast.Pred{ast.P("c04_owner", ast.Str("root"))}}, {Facts: []ast.Pred{ast.P("c04_note", ast.Int(1))}}})
	if err != nil {
		return
	}
	tok := plain
	for _, q := range qs {
		c.Eval(1)
		want, fl := ref.Answers(q, fs, nil)
		if fl.Err || fl.Lenient || fl.Mixed {
			continue
		}
		var got []string
		var qerr error
		if pi := lib.Try(func() {
			az, err := tok.B.AuthorizerFor(biscuit.WithSingularRootPublicKey(tok.Pub), lib.BigLimits())
			if err != nil {
				qerr = err
				return
			}
			for _, f := range facts {
				az.AddFact(f.LibFact())
			}
			if r.Intn(2) == 0 {
				_ = az.Authorize()
			}
			got, qerr = lib.QueryKeys(az, q)
		}); pi != nil {
			c.Violate("query-panic/"+pi.Site, pi.Msg, map[string]any{"query": q.Key()})
			continue
		}
		if qerr != nil {
			c.Violate("query-with-fresh-literal/error", fmt.Sprintf("%s: %v", q.Key(), qerr), map[string]any{"query": q.Key()})
			continue
		}
		if strings.Join(got, ";") != strings.Join(want.Keys(), ";") {
			c.Violate("query-with-fresh-literal/wrong-answers", fmt.Sprintf("Authorizer.Query(%s) returned %v, the reference %v", q.Key(), got, want.Keys()), map[string]any{"query": q.Key(), "got": got, "want": want.Keys()})
		}
		c.Count("queries_with_fresh_literals", 1)
	}
}

// perturb derives neighbours that separate the usual inversions.
func c04Perturb(r *rand.Rand, u *gen.Universe, a ast.AuthContent) (string, ast.AuthContent) {
	b := ast.AuthContent{Facts: a.Facts, Rules: a.Rules}
	b.Checks = append([]ast.Check{}, a.Checks...)
	b.Policies = append([]ast.Policy{}, a.Policies...)
	switch r.Intn(9) {
	case 7, 8:
		// put a uniformly failing query IN FRONT of the queries of a check or a policy: its body
		// matches an existing fact, its expression is an error on every substitution; it has no
		// answer, so the remaining queries still decide
		var src ast.Pred
		if len(a.Facts) > 0 {
			src = gen.Pick(r, a.Facts)
		} else {
			src = u.Fact(r)
			b.Facts = append(append([]ast.Pred{}, b.Facts...), src)
		}
		body := ast.Pred{Name: src.Name, Terms: make([]ast.Term, len(src.Terms))}
		for j, t := range src.Terms {
			if r.Intn(2) == 0 {
				body.Terms[j] = ast.Var(fmt.Sprintf("e%d", j))
			} else {
				body.Terms[j] = t
			}
		}
		bad := ast.Rule{Head: ast.P("query"), Body: []ast.Pred{body}, Exprs: []ast.Expr{u.ErrExpr(r, nil)}}
		if len(b.Checks) > 0 && (len(b.Policies) == 0 || r.Intn(2) == 0) {
			i := r.Intn(len(b.Checks))
			b.Checks[i] = ast.Check{Queries: append([]ast.Rule{bad}, b.Checks[i].Queries...)}
			return "erroring-query-first-in-check", b
		}
		if len(b.Policies) > 0 {
			i := r.Intn(len(b.Policies))
			b.Policies[i] = ast.Policy{Allow: b.Policies[i].Allow, Queries: append([]ast.Rule{bad}, b.Policies[i].Queries...)}
			return "erroring-query-first-in-policy", b
		}
		b.Checks = append(b.Checks, ast.Check{Queries: []ast.Rule{bad, {Head: ast.P("query"), Body: []ast.Pred{src}}}})
		return "erroring-query-first-in-new-check", b
	case 0:
		for i := range b.Policies {
			b.Policies[i].Allow = !b.Policies[i].Allow
		}
		return "swap-allow-deny", b
	case 1:
		for i, j := 0, len(b.Policies)-1; i < j; i, j = i+1, j-1 {
			b.Policies[i], b.Policies[j] = b.Policies[j], b.Policies[i]
		}
		return "reverse-policies", b
	case 2:
		if len(b.Checks) > 0 {
			i := r.Intn(len(b.Checks))
			if len(b.Checks[i].Queries) > 1 {
				q := append([]ast.Rule{}, b.Checks[i].Queries...)
				k := r.Intn(len(q))
				b.Checks[i] = ast.Check{Queries: append(q[:k:k], q[k+1:]...)}
			}
		}
		return "drop-one-query", b
	case 3:
		b.Checks = append(b.Checks, ast.Check{Queries: []ast.Rule{{Head: ast.P("query"), Body: []ast.Pred{ast.P("never_derived", ast.Var("x"))}}}})
		return "add-failing-check", b
	case 4:
		b.Policies = append([]ast.Policy{{Allow: r.Intn(2) == 0, Queries: []ast.Rule{{Head: ast.P("query")}}}}, b.Policies...)
		return "prepend-always-matching-policy", b
	case 5:
		b.Policies = append(b.Policies, ast.Policy{Allow: true, Queries: []ast.Rule{{Head: ast.P("query")}}})
		return "append-allow-all", b
	}
	// make checks pass by stating the facts they ask for
	for _, ch := range b.Checks {
		for _, q := range ch.Queries {
			for _, p := range q.Body {
				if p.Ground() {
					b.Facts = append(append([]ast.Pred{}, b.Facts...), p)
				}
			}
		}
	}
	return "state-asked-facts", b
}

func c04Run(c *core.C) {
	r := c.R
	for rep := 0; rep < 6; rep++ {
		s := gen.NewScenario(r, 4, c04Opts)
		countBig(c, s)
		if r.Intn(3) == 0 {
			// the same inside the token: a uniformly failing query in front of a block's check
			bi := r.Intn(len(s.Blocks))
			facts := append(append([]ast.Pred{}, s.Blocks[0].Facts...), s.Blocks[bi].Facts...)
			if len(s.Blocks[bi].Checks) > 0 && len(facts) > 0 {
				src := gen.Pick(r, facts)
				bad := ast.Rule{Head: ast.P("query"), Body: []ast.Pred{src}, Exprs: []ast.Expr{s.U.ErrExpr(r, nil)}}
				ci := r.Intn(len(s.Blocks[bi].Checks))
				s.Blocks[bi].Checks[ci] = ast.Check{Queries: append([]ast.Rule{bad}, s.Blocks[bi].Checks[ci].Queries...)}
				c.Count("token_checks_with_erroring_first_query", 1)
			}
		}
		label := fmt.Sprintf("c04-%d-%d", c.Idx, rep)
		tok, err := buildScenarioToken(c.Seed, label, s.Blocks)
		if err != nil {
			c.Violate("build-refused", "builder refused generated content: "+err.Error(), s.Blocks)
			continue
		}
		if r.Intn(2) == 0 {
			t2, err := tok.Reload()
			if err != nil {
				c.Violate("reload-refused", "library token does not reload: "+err.Error(), s.Blocks)
				continue
			}
			tok = t2
		}
		cls, ok := c04Check(c, "base", tok, s.Auth, false)
		if ok && rep == 0 {
			c.Sample(map[string]any{"kind": "scenario", "token_blocks": gen.Texts(tok.Blocks), "authorizer": gen.AuthTexts(s.Auth), "class": cls})
		}
		a := s.Auth
		for k := 0; k < 5; k++ {
			tag, b := c04Perturb(r, s.U, a)
			c04Check(c, tag, tok, b, false)
			if r.Intn(2) == 0 {
				a = b
			}
		}
		_, nb := c04Perturb(r, s.U, s.Auth)
		c04Reused(c, tok, s.Auth, nb)
		c04NonBoolean(c, tok)
		c04BlockFeedsAuthorizerRule(c, tok, s.Auth)
		// the same content through a saved and re-loaded snapshot: the decision procedure does not
		// care how the content reached the authorizer
		if d := ref.Authorize(tok.Blocks, a); d.Class != "" {
			c.Eval(1)
			if o := observeViaSnapshot(tok, a); o.Class != "SNAPSHOT-ERROR" && o.Class != lib.LIMIT && string(o.Class) != d.Class {
				c.Violate(fmt.Sprintf("verdict-via-snapshot/%s-where-%s", o.Class, d.Class), fmt.Sprintf("content saved with SerializePolicies and loaded with LoadPolicies: library says %s, decision procedure says %s (%s)", o.Class, d.Class, d.Signature),
					map[string]any{"token_blocks": tok.Blocks, "authorizer": a, "library": o, "reference": d.Class})
			}
			c.Count("via_snapshot", 1)
		}
		c04StringsAndQueries(c, tok)
		c04BoundaryCompare(c, tok)
		c04QueryFirst(c, s)
		if gen.AuthPrintable(a) {
			c04Check(c, "via-text", tok, a, true)
			c.Count("via_text", 1)
		}
	}
}

// c04BoundaryCompare: checks that order integers far apart (their difference does not fit 64 bits),
// decided by the reference.
func c04BoundaryCompare(c *core.C, tok *lib.Token) {
	r := c.R
	vals := []int64{math.MinInt64, math.MinInt64 + 1, -7000000000000000000, -1 << 32, -1, 0, 1, 10, 1 << 32, 7000000000000000000, math.MaxInt64 - 1, math.MaxInt64}
	x := ast.Var("x")
	for k := 0; k < 6; k++ {
		a, b := vals[r.Intn(len(vals))], vals[r.Intn(len(vals))]
		op := []int{int(ast.BLessThan), int(ast.BLessOrEqual), int(ast.BGreaterThan), int(ast.BGreaterOrEqual)}[r.Intn(4)]
		q := ast.Rule{Head: ast.P("query"), Body: []ast.Pred{ast.P("c04_num", x)}, Exprs: []ast.Expr{{ast.OV(x), ast.OV(ast.Int(b)), ast.OB(op)}}}
		ac := ast.AuthContent{Facts: []ast.Pred{ast.P("c04_num", ast.Int(a))}, Policies: []ast.Policy{allowAll}}
		if k%2 == 0 {
			ac.Checks = []ast.Check{{Queries: []ast.Rule{q}}}
		} else {
			ac.Policies = []ast.Policy{{Allow: false, Queries: []ast.Rule{q}}, allowAll}
		}
		c04Check(c, "boundary-compare", tok, ac, false)
		c.Count("boundary_compare_checks", 1)
	}
}

// c04QueryFirst: the same authorizer is asked a query BEFORE Authorize; the verdict is still the
// decision procedure's - in particular the authority block's rules have been applied. The
// authority block gets a rule deriving a fact that an authorizer check (or the only allow policy) needs.
func c04QueryFirst(c *core.C, s *gen.Scenario) {
	x := ast.Var("x")
	blocks := append([]ast.Block{}, s.Blocks...)
	b0 := blocks[0]
	b0.Facts = append(append([]ast.Pred{}, b0.Facts...), ast.P("c04_base_right", ast.Str("alice")))
	b0.Rules = append(append([]ast.Rule{}, b0.Rules...), ast.Rule{Head: ast.P("c04_derived_right", x), Body: []ast.Pred{ast.P("c04_base_right", x)}})
	blocks[0] = b0
	tok, err := buildScenarioToken(c.Seed, fmt.Sprintf("c04-qf-%d-%d", c.Idx, len(blocks)), blocks)
	if err != nil {
		return
	}
	need := ast.Rule{Head: ast.P("query"), Body: []ast.Pred{ast.P("c04_derived_right", ast.Str("alice"))}}
	a := ast.AuthContent{Facts: s.Auth.Facts, Rules: s.Auth.Rules, Checks: append(append([]ast.Check{}, s.Auth.Checks...), ast.Check{Queries: []ast.Rule{need}}), Policies: s.Auth.Policies}
	if c.R.Intn(2) == 0 {
		a = ast.AuthContent{Facts: s.Auth.Facts, Rules: s.Auth.Rules, Checks: s.Auth.Checks, Policies: []ast.Policy{{Allow: true, Queries: []ast.Rule{need}}}}
	}
	d := ref.Authorize(tok.Blocks, a)
	if d.Class == "" {
		return
	}
	c.Eval(1)
	var o lib.Obs
	pi := lib.Try(func() {
		az, err := tok.B.AuthorizerFor(biscuit.WithSingularRootPublicKey(tok.Pub), lib.BigLimits())
		if err != nil {
			o = lib.Obs{Class: lib.FAIL, Err: "authorizer: " + err.Error()}
			return
		}
		lib.AddContent(az, a)
		probes := append([]ast.Rule{{Head: ast.P("probe", x), Body: []ast.Pred{ast.P("c04_base_right", x)}}}, s.Probes...)
		for i := 0; i < 1+c.R.Intn(2) && i < len(probes); i++ {
			lib.QueryKeys(az, probes[i])
		}
		o = lib.ObserveOn(az, ast.AuthContent{}, nil)
	})
	if pi != nil {
		o = lib.Obs{Class: lib.PANIC, Panic: pi}
	}
	c.Count("query_first_cases", 1)
	if o.Class == lib.LIMIT {
		return
	}
	if string(o.Class) != d.Class {
		c.Violate(fmt.Sprintf("verdict-after-query/%s-where-%s", o.Class, d.Class), fmt.Sprintf("Query, then Authorize on the same authorizer: library says %s, decision procedure says %s (%s)", o.Class, d.Class, d.Signature),
			map[string]any{"token_blocks": tok.Blocks, "authorizer": a, "library": o, "reference": d.Class})
	}
}

func init() {
	core.Register(&core.Prop{
		ID:        "C04",
		MinCounts: map[string]int{"reused_authorizer_sequences": 900},
		Level:     "exploration",
		Rule: "each case: 6 seeded scenarios over a small colliding universe (token with 1-4 blocks of facts/rules/checks, built and in half of the cases re-loaded from bytes; authorizer with facts, rules, checks, 0-3 ordered policies; typed expression filters, 4% uniformly failing), each perturbed into 5 neighbours (swap allow/deny, reverse policies, drop a query, add failing check, prepend/append always-matching policy, state the facts checks ask for) once entered as parsed Datalog text, and once driven through ONE re-used authorizer (first half of the content, Authorize; second half with all the rules added on top, Authorize: verdict of the whole; Reset, a neighbour's content, Authorize). Library outcome class (OK/DENY/NOMATCH/FAIL) compared with the reference decision procedure R5 over reference fixpoint R1. " +
			"Non-trivial/distinct = distinct (check pass/fail vector per scope, first matching policy index, kind) signatures.",
		Assumptions: []string{"fragment of the property: ground facts, range-restricted rules, error-free or uniformly failing expressions; cases where a query has both answers and errors (order-dependent) give no verdict and are counted", "large limits; LIMIT is inconclusive"},
		NumCases: func(tier string) int {
			if tier == "thorough" {
				return 45000
			}
			return 300
		},
		Run: c04Run,
		Floor: func(a *core.Agg) []string {
			u := []string{}
			for _, cl := range []string{"OK", "DENY", "NOMATCH", "FAIL"} {
				if a.Cnt["class_"+cl] < 50 {
					u = append(u, fmt.Sprintf("class %s seen %d < 50", cl, a.Cnt["class_"+cl]))
				}
			}
			if a.Cnt["via_text"] < 50 {
				u = append(u, "via-text variants < 50")
			}
			return u
		},
	})
}
