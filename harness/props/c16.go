package props

import (
	"crypto/ed25519"
	"errors"
	"fmt"

	biscuit "github.com/biscuit-auth/biscuit-go/v2"
	"github.com/biscuit-auth/biscuit-go/v2/datalog"

	"verif/harness/ast"
	"verif/harness/core"
	"verif/harness/lib"
)

// C16 - the root key identifier travels with the token and selects exactly one key.
// Oracle: model (id given at creation) + a reference key-selection function.
// Bounded-exhaustive: ids x derivation histories (length <= 4) x key maps x defaults.

var c16IDs = []*uint32{nil, u32(0), u32(1), u32(123), u32(1 << 31), u32(0xffffffff)}

func u32(v uint32) *uint32 { return &v }

var c16Histories = func() []string {
	out := []string{""}
	var rec func(cur string)
	rec = func(cur string) {
		if len(cur) == 4 {
			return
		}
		for _, op := range "ASR" {
			sealed := false
			for _, ch := range cur {
				if ch == 'S' {
					sealed = true
				}
			}
			if sealed && op != 'R' {
				continue
			}
			n := cur + string(op)
			out = append(out, n)
			rec(n)
		}
	}
	rec("")
	return out
}()

func idText(id *uint32) string {
	if id == nil {
		return "absent"
	}
	return fmt.Sprint(*id)
}

type c16Lookup struct {
	name string
	keys map[uint32]ed25519.PublicKey
	def  *ed25519.PublicKey
}

// refSelect is the reference selection: exactly the key registered under the token's id,
// or the default when the token has none.
func refSelect(id *uint32, l c16Lookup) (ed25519.PublicKey, bool) {
	if id == nil {
		if l.def == nil {
			return nil, false
		}
		return *l.def, len(*l.def) > 0
	}
	k, ok := l.keys[*id]
	if !ok || len(k) == 0 {
		return nil, false
	}
	return k, true
}

func c16Lookups(id *uint32, right, wrong ed25519.PublicKey) []c16Lookup {
	rid := uint32(7)
	if id != nil {
		rid = *id
	}
	other := rid + 1
	if id != nil && *id == 0xffffffff {
		other = 0
	}
	maps := []struct {
		n string
		m map[uint32]ed25519.PublicKey
	}{
		{"empty", map[uint32]ed25519.PublicKey{}},
		{"nil-map", nil},
		{"right-id->right-key", map[uint32]ed25519.PublicKey{rid: right}},
		{"right-id->wrong-key", map[uint32]ed25519.PublicKey{rid: wrong}},
		{"other-id->right-key", map[uint32]ed25519.PublicKey{other: right}},
		{"right-id->empty-key", map[uint32]ed25519.PublicKey{rid: {}}},
		{"right-id->right,other->wrong", map[uint32]ed25519.PublicKey{rid: right, other: wrong}},
		{"right-id->wrong,other->right", map[uint32]ed25519.PublicKey{rid: wrong, other: right}},
		{"zero-id->right-key", map[uint32]ed25519.PublicKey{0: right}},
	}
	defs := []struct {
		n string
		d *ed25519.PublicKey
	}{{"nil", nil}, {"right", &right}, {"wrong", &wrong}}
	out := []c16Lookup{}
	for _, m := range maps {
		for _, d := range defs {
			out = append(out, c16Lookup{name: "map=" + m.n + " default=" + d.n, keys: m.m, def: d.d})
		}
	}
	return out
}

func c16CheckToken(c *core.C, tb *biscuit.Biscuit, id *uint32, hist string, right, wrong ed25519.PublicKey, lookups []c16Lookup) {
	got := tb.RootKeyID()
	if idText(got) != idText(id) {
		c.Violate("key-id-lost/"+lastOp(hist), fmt.Sprintf("token created with key id %s reports %s after history %q", idText(id), idText(got), hist), map[string]any{"id": idText(id), "history": hist})
	}
	for _, l := range lookups {
		c.Eval(1)
		want, wantOK := refSelect(id, l)
		var err error
		pi := lib.Try(func() { _, err = tb.AuthorizerFor(biscuit.WithRootPublicKeys(l.keys, l.def)) })
		wit := map[string]any{"id": idText(id), "history": hist, "lookup": l.name}
		if pi != nil {
			c.Violate("lookup-panic/"+pi.Site, pi.Msg, wit)
			continue
		}
		switch {
		case !wantOK:
			if err == nil {
				c.Violate("lookup-fell-back", "verification succeeded although no key is registered for the token's identifier: "+l.name, wit)
			} else if !errors.Is(err, biscuit.ErrNoPublicKeyAvailable) {
				c.Violate("lookup-wrong-error", fmt.Sprintf("%s: expected ErrNoPublicKeyAvailable, got %v", l.name, err), wit)
			}
			c.NT("nokey/" + idText(id) + "/" + hist + "/" + l.name)
		case want.Equal(right):
			if err != nil {
				c.Violate("lookup-right-key-rejected", fmt.Sprintf("%s: the key registered for the token's identifier was not used / rejected: %v", l.name, err), wit)
			}
			c.NT("right/" + idText(id) + "/" + hist + "/" + l.name)
		default:
			if err == nil {
				c.Violate("lookup-wrong-key-accepted", l.name+": verification succeeded with a key other than the signer's", wit)
			} else if errors.Is(err, biscuit.ErrNoPublicKeyAvailable) {
				c.Violate("lookup-wrong-error", l.name+": a key was registered (wrong one) but the error says none available", wit)
			}
			c.NT("wrong/" + idText(id) + "/" + hist + "/" + l.name)
		}
	}
}

func lastOp(h string) string {
	if h == "" {
		return "build"
	}
	if len(h) > 4 && h[:5] == "build" {
		return "build-again"
	}
	switch h[len(h)-1] {
	case 'A':
		return "append"
	case 'S':
		return "seal"
	}
	return "reload"
}

func c16Exhaustive() int { return len(c16IDs) * len(c16Histories) }

func c16Run(c *core.C) {
	var id *uint32
	hist := ""
	if c.Idx < c16Exhaustive() {
		id = c16IDs[c.Idx/len(c16Histories)]
		hist = c16Histories[c.Idx%len(c16Histories)]
	} else {
		if c.R.Intn(4) != 0 {
			id = u32(c.R.Uint32())
		}
		for i, n := 0, c.R.Intn(6); i < n; i++ {
			hist += string("AASR"[c.R.Intn(4)])
		}
	}
	right, priv := lib.KeyPair(c.Seed, fmt.Sprintf("c16-root-%d", c.Idx))
	wrong, _ := lib.KeyPair(c.Seed, fmt.Sprintf("c16-wrong-%d", c.Idx))
	rng := lib.NewDetRand(c.Seed, fmt.Sprintf("c16-%d", c.Idx))
	tok, err := lib.Build(priv, rng, []ast.Block{{Facts: []ast.Pred{ast.P("right", ast.Str("file1"), ast.Str("read"))}}}, id)
	if err != nil {
		c.Violate("build-refused", err.Error(), nil)
		return
	}
	lookups := c16Lookups(id, right, wrong)
	c16CheckToken(c, tok.B, id, "", right, wrong, lookups)
	done := ""
	for _, op := range hist {
		var nt *lib.Token
		var err error
		switch op {
		case 'A':
			if tok.Sealed {
				continue
			}
			nt, err = tok.Append(rng, ast.Block{Checks: []ast.Check{{Queries: []ast.Rule{{Head: ast.P("query"), Body: []ast.Pred{ast.P("right", ast.Var("f"), ast.Str("read"))}}}}}})
		case 'S':
			if tok.Sealed {
				continue
			}
			nt, err = tok.Seal(rng)
		case 'R':
			nt, err = tok.Reload()
		}
		done += string(op)
		if err != nil {
			c.Violate("derivation-refused", fmt.Sprintf("%c after %q: %v", op, done, err), nil)
			return
		}
		tok = nt
		c16CheckToken(c, tok.B, id, done, right, wrong, lookups)
	}
	c16SharedSource(c, priv, right, wrong, id, lookups)
	c16BuilderAgain(c, priv, right, wrong, id, lookups)
	c16OptionOrders(c, priv, right, wrong, id, lookups)
	if c.Idx%97 == 0 {
		c.Sample(map[string]any{"kind": "key-id history", "id": idText(id), "history": hist, "lookups_per_token": len(lookups)})
	}
}

// c16BuilderAgain: ONE root builder created with the identifier issues several tokens (Build,
// Build again, add a fact, Build again): every one of them carries the identifier given to the
// builder. A builder may refuse to be built again with an error.
func c16BuilderAgain(c *core.C, priv ed25519.PrivateKey, right, wrong ed25519.PublicKey, id *uint32, lookups []c16Lookup) {
	rng := lib.NewDetRand(c.Seed, fmt.Sprintf("c16-again-%d", c.Idx))
	var bld biscuit.Builder
	if id != nil {
		bld = biscuit.NewBuilder(priv, biscuit.WithRNG(rng), biscuit.WithRootKeyID(*id))
	} else {
		bld = biscuit.NewBuilder(priv, biscuit.WithRNG(rng))
	}
	_ = bld.AddAuthorityFact(ast.P("right", ast.Str("file1"), ast.Str("read")).LibFact())
	for k := 0; k < 3; k++ {
		if k == 2 {
			_ = bld.AddAuthorityFact(ast.P("right", ast.Str("file2"), ast.Str("read")).LibFact())
		}
		var b *biscuit.Biscuit
		var err error
		if pi := lib.Try(func() { b, err = bld.Build() }); pi != nil {
			c.Violate("build-panic/"+pi.Site, pi.Msg, map[string]any{"id": idText(id), "build_number": k + 1})
			return
		}
		if err != nil {
			c.Count("root_builder_rebuild_refused", 1)
			return
		}
		hist := fmt.Sprintf("build number %d on one builder", k+1)
		c16CheckToken(c, b, id, hist, right, wrong, lookups[:9])
		if nb, err := biscuit.Unmarshal(mustSerialize(b)); err == nil {
			c16CheckToken(c, nb, id, hist+", reload", right, wrong, lookups[:3])
		}
		c.Count("same_builder_tokens", 1)
	}
}

func mustSerialize(b *biscuit.Biscuit) []byte {
	ser, _ := b.Serialize()
	return ser
}

// c16OptionOrders: the identifier is one builder option among others (random source, base symbol
// table); it reaches the token whatever the order the options are given in.
func c16OptionOrders(c *core.C, priv ed25519.PrivateKey, right, wrong ed25519.PublicKey, id *uint32, lookups []c16Lookup) {
	if id == nil {
		return
	}
	base := &datalog.SymbolTable{}
	base.Insert("tenant")
	base.Insert("acme")
	mk := map[string]func() biscuit.Builder{
		"id, symbols": func() biscuit.Builder {
			return biscuit.NewBuilder(priv, biscuit.WithRootKeyID(*id), biscuit.WithSymbols(base))
		},
		"symbols, id": func() biscuit.Builder {
			return biscuit.NewBuilder(priv, biscuit.WithSymbols(base), biscuit.WithRootKeyID(*id))
		},
		"rng, id, symbols": func() biscuit.Builder {
			return biscuit.NewBuilder(priv, biscuit.WithRNG(lib.NewDetRand(c.Seed, "c16-oo")), biscuit.WithRootKeyID(*id), biscuit.WithSymbols(base))
		},
		"id, rng": func() biscuit.Builder {
			return biscuit.NewBuilder(priv, biscuit.WithRootKeyID(*id), biscuit.WithRNG(lib.NewDetRand(c.Seed, "c16-oo2")))
		},
		"id, symbols, rng": func() biscuit.Builder {
			return biscuit.NewBuilder(priv, biscuit.WithRootKeyID(*id), biscuit.WithSymbols(base), biscuit.WithRNG(lib.NewDetRand(c.Seed, "c16-oo3")))
		},
	}
	for _, order := range []string{"id, symbols", "symbols, id", "rng, id, symbols", "id, rng", "id, symbols, rng"} {
		var b *biscuit.Biscuit
		var err error
		if pi := lib.Try(func() {
			bld := mk[order]()
			_ = bld.AddAuthorityFact(ast.P("tenant", ast.Str("acme")).LibFact())
			b, err = bld.Build()
		}); pi != nil {
			c.Violate("build-panic/"+pi.Site, pi.Msg, map[string]any{"options": order})
			continue
		}
		if err != nil {
			c.Violate("build-refused", fmt.Sprintf("options (%s): %v", order, err), nil)
			continue
		}
		c16CheckToken(c, b, id, "build with options ("+order+")", right, wrong, lookups[:6])
		c.Count("option_order_tokens", 1)
	}
}

// c16SharedSource: ONE key source value is used for a sequence of tokens with different
// identifiers (the case's id, none, another id); every answer must be what a fresh source
// gives - a key source must not remember the previous lookup.
func c16SharedSource(c *core.C, priv ed25519.PrivateKey, right, wrong ed25519.PublicKey, id *uint32, lookups []c16Lookup) {
	other := uint32(7)
	if id != nil {
		other = *id + 1
		if *id == 0xffffffff {
			other = 0
		}
	}
	ids := []*uint32{id, nil, &other}
	toks := []*lib.Token{}
	for i, tid := range ids {
		t, err := lib.Build(priv, lib.NewDetRand(c.Seed, fmt.Sprintf("c16-shared-%d-%d", c.Idx, i)), []ast.Block{{Facts: []ast.Pred{ast.P("right", ast.Str("file1"), ast.Str("read"))}}}, tid)
		if err != nil {
			return
		}
		toks = append(toks, t)
	}
	order := []int{0, 1, 0, 2, 1, 2, 0}
	for _, l := range lookups {
		src := biscuit.WithRootPublicKeys(l.keys, l.def)
		trace := []string{}
		for step, ti := range order {
			c.Eval(1)
			tid := ids[ti]
			want, wantOK := refSelect(tid, l)
			var err error
			pi := lib.Try(func() { _, err = toks[ti].B.AuthorizerFor(src) })
			trace = append(trace, fmt.Sprintf("id=%s -> %v", idText(tid), err))
			wit := map[string]any{"lookup": l.name, "sequence_of_token_ids": trace, "step": step}
			if pi != nil {
				c.Violate("lookup-panic/"+pi.Site, pi.Msg, wit)
				break
			}
			bad := ""
			switch {
			case !wantOK && err == nil:
				bad = "accepted although no key is registered for this token's identifier"
			case !wantOK && !errors.Is(err, biscuit.ErrNoPublicKeyAvailable):
				bad = fmt.Sprintf("expected ErrNoPublicKeyAvailable, got %v", err)
			case wantOK && want.Equal(right) && err != nil:
				bad = fmt.Sprintf("the registered key was not used: %v", err)
			case wantOK && !want.Equal(right) && err == nil:
				bad = "accepted with a key other than the signer's"
			}
			if bad != "" {
				c.Violate("shared-key-source-remembers", fmt.Sprintf("one key source reused across tokens, step %d (id %s, %s): %s", step, idText(tid), l.name, bad), wit)
				break
			}
		}
		c.NT("shared/" + idText(id) + "/" + l.name)
	}
	c.Count("shared_source_sequences", len(lookups))
}

func init() {
	core.Register(&core.Prop{
		ID:        "C16",
		MinCounts: map[string]int{"same_builder_tokens": 500, "shared_source_sequences": 4000},
		Level:     "exploration",
		Rule: fmt.Sprintf("bounded-exhaustive: %d identifiers {absent,0,1,123,2^31,2^32-1} x all %d legal derivation histories over {Append,Seal,Reload} of length <=4 x 9 key maps x 3 defaults = 27 lookups on EVERY token of the history (complete in both tiers); thorough adds random identifiers and longer histories. Each lookup is decided by a reference selection function (exactly the key registered under the token's id, or the default when it has none; otherwise ErrNoPublicKeyAvailable); RootKeyID() of every derived token is compared with the id given at creation. ", len(c16IDs), len(c16Histories)) +
			"Non-trivial = distinct (id, history prefix, lookup) triples.",
		Assumptions: []string{"ed25519 signatures made by another key do not verify"},
		NumCases: func(tier string) int {
			if tier == "thorough" {
				return c16Exhaustive() + 100000
			}
			return c16Exhaustive()
		},
		Run:        c16Run,
		Exhaustive: func(string) bool { return true },
		Floor: func(a *core.Agg) []string {
			if len(a.NT) < 9000 {
				return []string{fmt.Sprintf("distinct lookups %d < 9000", len(a.NT))}
			}
			return nil
		},
	})
}
