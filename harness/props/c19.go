package props

import (
	"encoding/hex"
	"fmt"
	"runtime"
	"sort"
	"sync"
	"time"

	biscuit "github.com/biscuit-auth/biscuit-go/v2"
	"github.com/biscuit-auth/biscuit-go/v2/datalog"
	"github.com/biscuit-auth/biscuit-go/v2/parser"

	"verif/harness/ast"
	"verif/harness/core"
	"verif/harness/gen"
	"verif/harness/lib"
	"verif/harness/wire"
)

// C19 - a token can be shared by concurrent goroutines.
// Oracle: the Go race detector (the whole property runs in the -race build; reports are
// collected from the race log by the driver and keyed by the pair of innermost library frames)
// + a constant-state sequential model: every concurrent result must equal the result of the
// same call made alone.

var c19OpNames = []string{"AuthorizerFor", "Authorize", "Query", "String", "Code", "GetBlockID", "CreateBlock+Add+Build", "Append", "Seal", "Serialize", "RevocationIds", "Parse", "Checks+Context", "AuthorizerFor(tampered sealed copy)", "Authorize into a run limit"}

type c19Shared struct {
	tok     *lib.Token
	auth    ast.AuthContent
	probes  []ast.Rule
	pFact   biscuit.Fact
	pRule   biscuit.Rule
	pCheck  biscuit.Check
	pPolicy biscuit.Policy
	psr     parser.Parser
	texts   []string
	lookup  []ast.Pred
	badSeal []byte                   // a sealed copy of the token whose final signature has one bit flipped
	opt     biscuit.AuthorizerOption // ONE option value used by every authorizer of every goroutine
}

// c19Op runs one operation and returns a canonical text of its result.
func c19Op(sh *c19Shared, op int, label string) string {
	t := sh.tok
	switch op {
	case 0: // AuthorizerFor only (signature verification)
		_, err := t.B.AuthorizerFor(biscuit.WithSingularRootPublicKey(t.Pub), sh.opt)
		return fmt.Sprint(err)
	case 1: // Authorize with own authorizer, shared parsed values added
		a, err := t.B.AuthorizerFor(biscuit.WithSingularRootPublicKey(t.Pub), sh.opt)
		if err != nil {
			return "ERR " + err.Error()
		}
		lib.AddContent(a, sh.auth)
		a.AddFact(sh.pFact)
		a.AddRule(sh.pRule)
		a.AddCheck(sh.pCheck)
		a.AddPolicy(sh.pPolicy)
		// a regular expression nobody has evaluated before (unique per case, goroutine and call)
		a.AddCheck(ast.Check{Queries: []ast.Rule{
			{Head: ast.P("query"), Body: []ast.Pred{ast.P("resource", ast.Var("r"))}, Exprs: []ast.Expr{{ast.OV(ast.Var("r")), ast.OV(ast.Str("^never-" + label + "$")), ast.OB(ast.BRegex), ast.OU(ast.UNegate)}}},
		}}.Lib())
		return string(lib.Classify(a.Authorize()))
	case 2: // Query
		a, err := t.B.AuthorizerFor(biscuit.WithSingularRootPublicKey(t.Pub), sh.opt)
		if err != nil {
			return "ERR " + err.Error()
		}
		o := lib.ObserveOn(a, sh.auth, sh.probes)
		return o.Key()
	case 3:
		return t.B.String()
	case 4:
		return fmt.Sprint(t.B.Code())
	case 5: // GetBlockID with known and unknown symbols
		out := ""
		for _, f := range sh.lookup {
			id, err := t.B.GetBlockID(f.LibFact())
			out += fmt.Sprint(id, err, ";")
		}
		// misses on a predicate the token knows, with strings nobody has seen (flat and in a set)
		if n := len(sh.lookup); n > 2 {
			known := sh.lookup[n-1].Name
			for _, f := range []ast.Pred{ast.P(known, ast.Str("unseen-"+label)), ast.P(known, ast.SetOf(ast.Str("unseen-in-set-"+label)))} {
				id, err := t.B.GetBlockID(f.LibFact())
				out += fmt.Sprint(id, err, ";")
			}
		}
		return out
	case 6: // CreateBlock + Add (new symbols) + Build, observed through the block's printed form after append
		bb := t.B.CreateBlock()
		_ = bb.AddFact(ast.P("fresh_"+label, ast.Str("value_"+label)).LibFact())
		_ = bb.AddCheck(sh.pCheck)
		_ = bb.AddRule(sh.pRule)
		blk := bb.Build()
		nb, err := t.B.Append(lib.NewDetRand(7, "c19-build-"+label), blk)
		if err != nil {
			if t.Sealed {
				return "sealed"
			}
			return "ERR " + err.Error()
		}
		return fmt.Sprint(nb.Code())
	case 7: // Append, result bytes are a function of (token, block, rng stream)
		nt, err := t.Append(lib.NewDetRand(7, "c19-append-"+label), ast.Block{Facts: []ast.Pred{ast.P("appended", ast.Str(label))}, Checks: []ast.Check{{Queries: []ast.Rule{{Head: ast.P("query"), Body: []ast.Pred{ast.P("resource", ast.Var("r"))}}}}}})
		if err != nil {
			if t.Sealed {
				return "sealed"
			}
			return "ERR " + err.Error()
		}
		ser, _ := nt.B.Serialize()
		return hex.EncodeToString(ser)
	case 8: // Seal is deterministic (ed25519 signatures are)
		nb, err := t.B.Seal(lib.NewDetRand(7, "c19-seal"))
		if err != nil {
			if t.Sealed {
				return "sealed"
			}
			return "ERR " + err.Error()
		}
		ser, _ := nb.Serialize()
		return hex.EncodeToString(ser)
	case 9:
		ser, err := t.B.Serialize()
		return hex.EncodeToString(ser) + fmt.Sprint(err)
	case 10:
		out := ""
		for _, id := range t.B.RevocationIds() {
			out += hex.EncodeToString(id) + ","
		}
		return out
	case 11: // one parser instance shared by everybody
		out := ""
		for _, tx := range sh.texts {
			r, err := sh.psr.Rule(tx, nil)
			if err != nil {
				out += "ERR;"
				continue
			}
			x, _ := ast.FromLibRule(r)
			out += x.Key() + ";"
		}
		return out
	case 13: // a tampered sealed copy is refused, every time, while the genuine token is in use
		if sh.badSeal == nil {
			return "n/a"
		}
		b, err := biscuit.Unmarshal(sh.badSeal)
		if err != nil {
			return "unmarshal: " + err.Error()
		}
		_, err = b.AuthorizerFor(biscuit.WithSingularRootPublicKey(t.Pub), sh.opt)
		return fmt.Sprint(err)
	case 14: // an evaluation that ends in a limit error; what the error says belongs to this call alone
		n := 3 + len(label)%5
		a, err := t.B.AuthorizerFor(biscuit.WithSingularRootPublicKey(t.Pub), biscuit.WithWorldOptions(datalog.WithMaxFacts(n), datalog.WithMaxIterations(4), datalog.WithMaxDuration(60*time.Second)))
		if err != nil {
			return "ERR " + err.Error()
		}
		for i := 0; i < n+4; i++ {
			a.AddFact(ast.P("limit_filler_"+label, ast.Int(int64(i))).LibFact())
		}
		a.AddPolicy(sh.pPolicy)
		e1 := a.Authorize()
		txt := fmt.Sprint(e1)
		// the error keeps saying the same thing while other goroutines run into limits of their own
		runtime.Gosched()
		return txt + " / " + fmt.Sprint(e1) + " / " + string(lib.Classify(e1))
	default:
		return fmt.Sprint(len(t.B.Checks()), t.B.GetContext(), t.B.BlockCount(), idText(t.B.RootKeyID()))
	}
}

type c19Event struct {
	op         int
	start, end int64
}

func c19Run(c *core.C) {
	r := c.R
	s := gen.NewScenario(r, 4, scenOpts)
	countBig(c, s)
	{
		// arithmetic and ordering on integers beyond 32 bits, dates and long strings, evaluated by every
		// goroutine in the token's rule, in a block check and in the authorizer's check
		w, x, y := int64(3000000000+r.Intn(1000)), ast.Var("x"), ast.Var("y")
		ar := func(op int, k int64, cmpOp int, k2 int64) ast.Expr {
			return ast.Expr{ast.OV(x), ast.OV(ast.Int(k)), ast.OB(op), ast.OV(ast.Int(k2)), ast.OB(cmpOp)}
		}
		s.Blocks[0].Facts = append(s.Blocks[0].Facts, ast.P("wide", ast.Int(w)), ast.P("wide", ast.Int(-w)), ast.P("wide", ast.Int(7)))
		s.Blocks[0].Rules = append(s.Blocks[0].Rules,
			ast.Rule{Head: ast.P("wide_sum", x, y), Body: []ast.Pred{ast.P("wide", x), ast.P("wide", y)}, Exprs: []ast.Expr{{ast.OV(x), ast.OV(y), ast.OB(int(ast.BAdd)), ast.OV(ast.Int(2 * w)), ast.OB(int(ast.BEqual))}}},
			ast.Rule{Head: ast.P("wide_prod", x), Body: []ast.Pred{ast.P("wide", x)}, Exprs: []ast.Expr{ar(int(ast.BMul), 3, int(ast.BGreaterThan), 8000000000)}},
			ast.Rule{Head: ast.P("wide_diff", x), Body: []ast.Pred{ast.P("wide", x)}, Exprs: []ast.Expr{ar(int(ast.BSub), w, int(ast.BLessOrEqual), -5000000000)}})
		s.Blocks[len(s.Blocks)-1].Checks = append(s.Blocks[len(s.Blocks)-1].Checks, ast.Check{Queries: []ast.Rule{{Head: ast.P("query"), Body: []ast.Pred{ast.P("wide", x)}, Exprs: []ast.Expr{ar(int(ast.BAdd), w, int(ast.BEqual), 2*w)}}}})
		s.Auth.Checks = append(s.Auth.Checks, ast.Check{Queries: []ast.Rule{{Head: ast.P("query"), Body: []ast.Pred{ast.P("wide_sum", x, y)}, Exprs: []ast.Expr{ar(int(ast.BDiv), 3, int(ast.BGreaterOrEqual), 1000000000)}}}})
		s.Probes = append(s.Probes, ast.Rule{Head: ast.P("probe_wide", x, y), Body: []ast.Pred{ast.P("wide_sum", x, y)}}, ast.Rule{Head: ast.P("probe_wide_prod", x), Body: []ast.Pred{ast.P("wide_prod", x)}},
			ast.Rule{Head: ast.P("probe_wide_diff", x), Body: []ast.Pred{ast.P("wide_diff", x)}})
	}
	tok, err := buildScenarioToken(c.Seed, fmt.Sprintf("c19-%d", c.Idx), s.Blocks)
	if err != nil {
		c.Violate("build-refused", err.Error(), nil)
		return
	}
	variant := []string{"built", "re-loaded", "sealed", "sealed+re-loaded"}[c.Idx%4]
	switch variant {
	case "re-loaded":
		tok, err = tok.Reload()
	case "sealed":
		tok, err = tok.Seal(lib.NewDetRand(c.Seed, "c19seal"))
	case "sealed+re-loaded":
		tok, err = tok.Seal(lib.NewDetRand(c.Seed, "c19seal"))
		if err == nil {
			tok, err = tok.Reload()
		}
	}
	if err != nil {
		c.Violate("derivation-refused", err.Error(), nil)
		return
	}
	psr := parser.New()
	sh := &c19Shared{tok: tok, auth: s.Auth, probes: s.Probes, psr: psr, opt: lib.BigLimits()}
	// the shared parsed values contain set literals written in no particular order
	sh.pFact, _ = psr.Fact(`resource("file1")`, nil)
	sh.pRule, _ = psr.Rule(`can_read($f) <- resource($f), $f.starts_with("file") || [3, 1, 2].contains(3) || ["write", "read"].contains("x")`, nil)
	sh.pCheck, _ = psr.Check(`check if resource($r), operation($o), resource($r2), $r.length() > 0 or operation("read"), ["z", "b", "a"].contains("b") or resource($any)`, nil)
	parsedBefore := fmt.Sprintf("%v %v %v", sh.pFact, sh.pRule, sh.pCheck)
	sh.pPolicy, _ = psr.Policy(`allow if resource($any)`, nil)
	for i := 0; i < 3; i++ {
		params := gen.Params{}
		toks, _ := gen.GRule(r, params, 3)
		if len(params) == 0 {
			sh.texts = append(sh.texts, gen.Layout(r, toks))
		}
	}
	sh.texts = append(sh.texts, `r($x) <- p($x), $x + 1 < 10 && !$x.contains(2)`)
	sh.lookup = []ast.Pred{ast.P("never_seen_predicate", ast.Str("never_seen_value")), ast.P("other_unknown", ast.Int(1))}
	if len(tok.Blocks[0].Facts) > 0 {
		sh.lookup = append(sh.lookup, tok.Blocks[0].Facts[0])
	}
	// the tampered sealed copy (final signature with one bit flipped)
	sealedTok := tok
	if !tok.Sealed {
		sealedTok, _ = tok.Seal(lib.NewDetRand(c.Seed, "c19-bad-seal"))
	}
	if sealedTok != nil {
		if ser, err := sealedTok.B.Serialize(); err == nil {
			if env, err := wire.Decode(ser); err == nil && len(env.Proof) > 0 {
				env.Proof[r.Intn(len(env.Proof))] ^= 1 << uint(r.Intn(8))
				sh.badSeal = env.Encode()
			}
		}
	}
	nG := []int{2, 3, 4, 8, 16}[r.Intn(5)]
	procs := []int{2, 4, 16}[r.Intn(3)]
	old := runtime.GOMAXPROCS(procs)
	defer runtime.GOMAXPROCS(old)
	opsPer := 12
	plans := make([][]int, nG)
	for g := range plans {
		for k := 0; k < opsPer; k++ {
			plans[g] = append(plans[g], r.Intn(len(c19OpNames)))
		}
	}
	if c.Idx%2 == 1 {
		// one refused verification before anything else: state it leaves behind is met by everybody
		lib.Try(func() { _ = c19Op(sh, 13, "warm") })
	}
	// sequential model: the result of every planned call made alone. In even cases it is computed
	// BEFORE any concurrency, in odd cases AFTER it (a warm-up would hide races on state that is
	// only written the first time something is seen, e.g. a cache); the model is constant-state,
	// so the order does not matter for a correct library.
	label := func(g, k int) string { return fmt.Sprintf("%d-%d-%d", c.Idx, g, k) }
	want := make([][]string, nG)
	sequential := func() bool {
		for g := range plans {
			for k, op := range plans[g] {
				var res string
				pi := lib.Try(func() { res = c19Op(sh, op, label(g, k)) })
				if pi != nil {
					c.Violate("sequential-panic/"+pi.Site, pi.Msg, map[string]any{"op": c19OpNames[op]})
					return false
				}
				want[g] = append(want[g], res)
			}
		}
		return true
	}
	baselineFirst := c.Idx%2 == 0
	if baselineFirst && !sequential() {
		return
	}
	got := make([][]string, nG)
	events := make([][]c19Event, nG)
	panics := make([]*lib.PanicInfo, nG)
	var wg sync.WaitGroup
	start := make(chan struct{})
	t0 := time.Now()
	for g := 0; g < nG; g++ {
		wg.Add(1)
		go func(g int) {
			defer wg.Done()
			<-start
			panics[g] = lib.Try(func() {
				for k, op := range plans[g] {
					st := time.Since(t0).Nanoseconds()
					res := c19Op(sh, op, label(g, k))
					en := time.Since(t0).Nanoseconds()
					got[g] = append(got[g], res)
					events[g] = append(events[g], c19Event{op, st, en})
				}
			})
		}(g)
	}
	close(start)
	wg.Wait()
	c.Eval(nG * opsPer)
	if !baselineFirst && !sequential() {
		return
	}
	c.Count(map[bool]string{true: "baseline_before_concurrency", false: "baseline_after_concurrency"}[baselineFirst], 1)
	if now := fmt.Sprintf("%v %v %v", sh.pFact, sh.pRule, sh.pCheck); now != parsedBefore {
		c.Violate("shared-parsed-value-written", "a parsed fact / rule / check shared by the goroutines is not what the parser returned any more", map[string]any{"before": parsedBefore, "now": now})
	}
	desc := map[string]any{"token_variant": variant, "blocks": len(tok.Blocks), "goroutines": nG, "gomaxprocs": procs}
	for g := 0; g < nG; g++ {
		if panics[g] != nil {
			c.Violate("concurrent-panic/"+panics[g].Site, panics[g].Msg, desc)
			continue
		}
		for k := range got[g] {
			if got[g][k] != want[g][k] {
				c.Violate("concurrent-result-differs/"+c19OpNames[plans[g][k]], fmt.Sprintf("goroutine %d, call %d (%s): result differs from the same call made alone", g, k, c19OpNames[plans[g][k]]),
					map[string]any{"desc": desc, "alone": core.Head(want[g][k], 1500), "concurrent": core.Head(got[g][k], 1500)})
			}
		}
	}
	// which operation types really overlapped in time
	pairs := map[string]bool{}
	for a := 0; a < nG; a++ {
		for b := a + 1; b < nG; b++ {
			for _, ea := range events[a] {
				for _, eb := range events[b] {
					if ea.start < eb.end && eb.start < ea.end {
						x, y := c19OpNames[ea.op], c19OpNames[eb.op]
						if y < x {
							x, y = y, x
						}
						pairs[x+" || "+y] = true
					}
				}
			}
		}
	}
	ks := []string{}
	for p := range pairs {
		c.NT("overlap/" + p)
		c.Count("overlap:"+p, 1)
		ks = append(ks, p)
	}
	sort.Strings(ks)
	c.Count("token_variant:"+variant, 1)
	c.Sample(map[string]any{"kind": "shared token run", "token_variant": variant, "goroutines": nG, "gomaxprocs": procs, "ops_per_goroutine": opsPer, "overlapping_operation_pairs_seen": len(ks), "example_pairs": ks[:min(6, len(ks))]})
}

func init() {
	core.Register(&core.Prop{
		ID:        "C19",
		MinCounts: map[string]int{"baseline_before_concurrency": 20, "baseline_after_concurrency": 20},
		Level:     "exploration",
		Rule: "every case runs in the -race build: one shared token (variants in rotation: built, re-loaded from bytes, sealed, sealed and re-loaded; 1-4 blocks) x 2-16 goroutines released by a start barrier x GOMAXPROCS in {2,4,16} x 12 seeded operations per goroutine over {AuthorizerFor, Authorize, Query, String, Code, GetBlockID with unknown symbols, CreateBlock+Add+Build, Append, Seal, Serialize, RevocationIds, Checks/GetContext, parsing with ONE shared parser instance}; parsed fact / rule / check / policy values are shared by all goroutines. Every planned call is first made alone (constant-state sequential model) and its concurrent result must be identical. Race reports are read from the race log, de-duplicated by the unordered pair of innermost library frames. " +
			"Non-trivial/distinct = distinct pairs of operation types whose executions really overlapped in time (from per-call start/end stamps).",
		Assumptions: []string{"the race detector only sees accesses the workload executes in the same run; reports vary from run to run, hence the repetition"},
		NumCases: func(tier string) int {
			if tier == "thorough" {
				return 3000
			}
			return 64
		},
		RaceFrom:     func(string) int { return 0 },
		Run:          c19Run,
		MaxWorkers:   4,
		CaseTimeoutS: 600,
		Floor: func(a *core.Agg) []string {
			u := []string{}
			n := len(c19OpNames)
			want := n * (n + 1) / 2
			if len(a.NT) < want*9/10 {
				u = append(u, fmt.Sprintf("overlapping operation-type pairs %d < 90%% of %d", len(a.NT), want))
			}
			for _, v := range []string{"built", "re-loaded", "sealed", "sealed+re-loaded"} {
				if a.Cnt["token_variant:"+v] == 0 {
					u = append(u, "token variant never shared: "+v)
				}
			}
			return u
		},
	})
}
