package props

import (
	"crypto/ed25519"
	"encoding/hex"
	"fmt"
	"github.com/biscuit-auth/biscuit-go/v2/datalog"
	"os"
	"path/filepath"
	"sort"
	"strings"

	biscuit "github.com/biscuit-auth/biscuit-go/v2"

	"verif/harness/ast"
	"verif/harness/core"
	"verif/harness/gen"
	"verif/harness/lib"
	"verif/harness/wire"
)

// C07 - wire fidelity: bytes carry exactly the caller's Datalog and round-trip intact.
// Oracle: R3 (independent decoder) against the model carried by the history.

func wireCoverage(c *core.C, d *wire.Decoded) {
	var term func(t wire.Term)
	term = func(t wire.Term) {
		c.NT(fmt.Sprintf("wire-term-tag/%d", t.Tag))
		c.Count(fmt.Sprintf("wire_term_tag_%d", t.Tag), 1)
		for _, e := range t.Set {
			term(e)
		}
	}
	pred := func(p wire.Pred) {
		for _, t := range p.Terms {
			term(t)
		}
	}
	rule := func(r wire.Rule) {
		pred(r.Head)
		for _, b := range r.Body {
			pred(b)
		}
		for _, e := range r.Exprs {
			for _, o := range e {
				switch o.Tag {
				case wire.OValue:
					term(o.Val)
				case wire.OUnary:
					c.Count(fmt.Sprintf("wire_unary_%d", o.Kind), 1)
				case wire.OBinary:
					c.Count(fmt.Sprintf("wire_binary_%02d", o.Kind), 1)
				}
			}
		}
	}
	for _, b := range d.WBlocks {
		for _, f := range b.Facts {
			pred(f)
		}
		for _, r := range b.Rules {
			rule(r)
		}
		for _, ch := range b.Checks {
			for _, q := range ch {
				rule(q)
			}
		}
	}
}

func cmpSorted(a, b []string) bool {
	if len(a) != len(b) {
		return false
	}
	for i := range a {
		if a[i] != b[i] {
			return false
		}
	}
	return true
}

// c07CheckToken applies the wire-fidelity oracle to one live token.
func c07CheckToken(c *core.C, f *Family, i int) {
	l := f.Tokens[i]
	c.Eval(1)
	wit := func(extra map[string]any) any {
		m := map[string]any{"ops": f.Ops, "token": i, "model_blocks": gen.Texts(l.T.Blocks)}
		for k, v := range extra {
			m[k] = v
		}
		return m
	}
	ser, err := l.T.B.Serialize()
	if err != nil {
		c.Violate("serialize-failed", err.Error(), wit(nil))
		return
	}
	d, err := wire.DecodeToken(ser)
	if err != nil {
		c.Violate("independent-decoder-rejects", "bytes written by the library do not decode per the published schema: "+err.Error(), wit(map[string]any{"hex": hex.EncodeToString(ser)}))
		return
	}
	if d.Env.NonCanonical {
		c.Violate("non-canonical-encoding", "library wrote unknown / repeated fields", wit(map[string]any{"hex": hex.EncodeToString(ser)}))
	}
	for _, e := range d.SymbolRuleErrors {
		c.Violate("symbol-rule", e, wit(map[string]any{"hex": hex.EncodeToString(ser)}))
	}
	if len(d.Blocks) != len(l.T.Blocks) {
		c.Violate("block-count", fmt.Sprintf("decoded %d blocks, model has %d", len(d.Blocks), len(l.T.Blocks)), wit(nil))
		return
	}
	usesExpr := false
	for bi, got := range d.Blocks {
		want := l.T.Blocks[bi]
		gf, gr, gc := got.SortedKeys()
		wf, wr, wc := want.SortedKeys()
		if !cmpSorted(gf, wf) {
			c.Violate("block-facts-differ", fmt.Sprintf("block %d facts on the wire %v, caller supplied %v", bi, gf, wf), wit(nil))
		}
		if !cmpSorted(gr, wr) {
			c.Violate("block-rules-differ", fmt.Sprintf("block %d rules on the wire %v, caller supplied %v", bi, gr, wr), wit(nil))
		}
		if !cmpSorted(gc, wc) {
			c.Violate("block-checks-differ", fmt.Sprintf("block %d checks on the wire %v, caller supplied %v", bi, gc, wc), wit(nil))
		}
		if got.Context != want.Context {
			c.Violate("block-context-differs", fmt.Sprintf("block %d context %q, caller supplied %q", bi, got.Context, want.Context), wit(nil))
		}
		wb := d.WBlocks[bi]
		if wb.Version == nil || *wb.Version != 3 {
			c.Violate("block-version", fmt.Sprintf("block %d version on the wire is not 3", bi), wit(nil))
		}
		for _, r := range want.Rules {
			if len(r.Exprs) > 0 {
				usesExpr = true
			}
		}
	}
	wireCoverage(c, d)
	// the proof on the wire must match the sealed flag of the model
	if l.T.Sealed != (d.Env.ProofKind == wire.ProofFinal) {
		c.Violate("proof-kind", "sealed flag and proof kind on the wire disagree", wit(nil))
	}
	if err := wire.VerifyChain(d.Env, l.T.Pub); err != nil {
		c.Violate("chain-broken-on-wire", "independent verifier rejects a library-made token: "+err.Error(), wit(nil))
	}
	// unmarshal: same content, ids, key id, behaviour; re-serialization reproduces the bytes
	rb, err := biscuit.Unmarshal(ser)
	if err != nil {
		c.Violate("unmarshal-own-bytes", err.Error(), wit(nil))
		return
	}
	ser2, err := rb.Serialize()
	if err != nil || !sameBytes(ser, ser2) {
		c.Violate("reserialize-differs", "Unmarshal(bytes).Serialize() does not reproduce the bytes", wit(map[string]any{"before": hex.EncodeToString(ser), "after": hex.EncodeToString(ser2)}))
	}
	s1 := takeSnapshot(l.T.B, l.T.Pub, f.Panel)
	s2 := takeSnapshot(rb, l.T.Pub, f.Panel)
	if s1.Err != "" || s2.Err != "" {
		c.Violate("snapshot-error", s1.Err+" / "+s2.Err, wit(nil))
		return
	}
	if df := diffSnapshot(s1, s2); df != "" {
		c.Violate("unmarshal-changes/"+df, "token and its unmarshalled copy differ in "+df, wit(map[string]any{"before": s1, "after": s2}))
	}
	// key id on the wire equals the reported one
	wireID := "absent"
	if d.Env.RootKeyID != nil {
		wireID = fmt.Sprint(*d.Env.RootKeyID)
	}
	if wireID != s1.KeyID {
		c.Violate("key-id-on-wire", fmt.Sprintf("RootKeyID() says %s, the wire says %s", s1.KeyID, wireID), wit(nil))
	}
	// ... and the id the caller gave when the root token of this family was created
	if idText(l.T.KeyID) != wireID {
		c.Violate("key-id-not-what-the-caller-gave", fmt.Sprintf("created with root key id %s, the wire carries %s", idText(l.T.KeyID), wireID), wit(nil))
	}
	// revocation ids are the signatures on the wire
	all := d.Env.All()
	if len(s1.RevIDs) == len(all) {
		for k, s := range all {
			if hex.EncodeToString(s.Sig) != s1.RevIDs[k] {
				c.Violate("revocation-id-not-signature", fmt.Sprintf("id %d differs from the signature on the wire", k), wit(nil))
			}
		}
	}
	if usesExpr || len(d.Blocks) > 1 {
		c.NT("token/" + hex.EncodeToString(ser[:min(len(ser), 64)]) + fmt.Sprint(len(ser)))
	}
	if i == len(f.Tokens)-1 {
		c.Sample(map[string]any{"kind": "history", "ops": f.Ops, "last_token_blocks": gen.Texts(l.T.Blocks), "bytes": len(ser), "proof": d.Env.ProofKind})
	}
}

// version gate: re-write block i with another version, re-sign, and present it.
func c07VersionGate(c *core.C, f *Family) {
	l := f.Tokens[c.R.Intn(len(f.Tokens))]
	if l.T.Sealed {
		return
	}
	ser, _ := l.T.B.Serialize()
	d, err := wire.DecodeToken(ser)
	if err != nil {
		return
	}
	versions := []*uint32{nil}
	for _, v := range []uint32{0, 1, 2, 3, 4, 5, 1 << 31, 0xffffffff} {
		vv := v
		versions = append(versions, &vv)
	}
	bi := c.R.Intn(len(d.WBlocks))
	for _, v := range versions {
		c.Eval(1)
		// rebuild the whole chain with fresh keys so that only the version decides
		raw := [][]byte{}
		for k, wb := range d.WBlocks {
			cp := *wb
			if k == bi {
				cp.Version = v
			}
			raw = append(raw, cp.Encode())
		}
		n := 0
		keys := func() (ed25519.PublicKey, ed25519.PrivateKey) {
			n++
			return lib.KeyPair(c.Seed, fmt.Sprintf("vg-%d-%d", c.Idx, n))
		}
		env, _ := wire.BuildToken(l.T.Priv, raw, keys, d.Env.RootKeyID)
		bytes := env.Encode()
		label := "absent"
		if v != nil {
			label = fmt.Sprint(*v)
		}
		var uerr, aerr error
		pi := lib.Try(func() {
			var b *biscuit.Biscuit
			b, uerr = biscuit.Unmarshal(bytes)
			if uerr == nil {
				_, aerr = b.AuthorizerFor(biscuit.WithSingularRootPublicKey(l.T.Pub))
			}
		})
		wit := map[string]any{"version": label, "block": bi, "hex": hex.EncodeToString(bytes)}
		if pi != nil {
			c.Violate("version-gate-panic/"+pi.Site, pi.Msg, wit)
			continue
		}
		accepted := uerr == nil && aerr == nil
		if v != nil && *v == 3 {
			if !accepted {
				c.Violate("version-3-rejected", fmt.Sprintf("spec-conformant re-signed token rejected: %v %v", uerr, aerr), wit)
			}
			c.Count("version_gate_accept_control", 1)
		} else {
			if accepted {
				c.Violate("unsupported-version-accepted/"+label, "block with schema version "+label+" accepted", wit)
			}
			c.Count("version_gate_rejected", 1)
		}
		c.NT("version-gate/" + label)
	}
}

var sampleRootPub = func() ed25519.PublicKey {
	// root public key of the sample corpus (samples/data/current/samples.json)
	return nil
}()

func c07Samples(c *core.C) {
	dir := os.Getenv("VERIF_REPO")
	if dir == "" {
		dir = "/repo"
	}
	files, _ := filepath.Glob(filepath.Join(dir, "samples/data/current/*.bc"))
	sort.Strings(files)
	for _, fn := range files {
		b, err := os.ReadFile(fn)
		if err != nil {
			continue
		}
		var tok *biscuit.Biscuit
		pi := lib.Try(func() { tok, err = biscuit.Unmarshal(b) })
		if pi != nil {
			c.Violate("sample-unmarshal-panic/"+pi.Site, filepath.Base(fn)+": "+pi.Msg, nil)
			continue
		}
		if err != nil {
			c.Count("samples_not_loadable", 1)
			continue
		}
		c.Eval(1)
		c.Count("samples_loaded", 1)
		ser, err := tok.Serialize()
		if err != nil || !sameBytes(ser, b) {
			c.Violate("sample-reserialize-differs", filepath.Base(fn), nil)
		}
		if _, err := wire.DecodeToken(b); err != nil {
			c.Violate("sample-independent-decoder-rejects", filepath.Base(fn)+": "+err.Error(), nil)
		}
		c.NT("sample/" + filepath.Base(fn))
	}
}

// c07AddBlockPath enters content through AddBlock(ParsedBlock) - the path the text parser's output
// takes - with a fact in the middle of the call that the builder refuses as a duplicate: the facts
// accepted before and after the refusal (with symbols nobody has seen) are what the caller put in.
// Done once on a block builder (child appended to a live token) and once on a root builder.
func c07AddBlockPath(c *core.C, f *Family) {
	n := len(f.Tokens)
	mkParsed := func(tag string) (biscuit.ParsedBlock, []ast.Pred) {
		first := ast.P("x_"+tag, ast.Str("one_"+tag))
		kept := ast.P("kept_"+tag, ast.Str("alpha_"+tag))
		last := ast.P("tail_"+tag, ast.Str("omega_"+tag), ast.Int(7))
		return biscuit.ParsedBlock{Facts: []biscuit.Fact{first.LibFact(), kept.LibFact(), first.LibFact(), last.LibFact()}}, []ast.Pred{first, kept}
	}
	after := func(tag string) ast.Pred { return ast.P("other_"+tag, ast.Str("beta_"+tag)) }
	var p *Live
	for _, l := range f.Tokens {
		if !l.T.Sealed {
			p = l
		}
	}
	if p != nil {
		tag := fmt.Sprintf("b%d", n)
		pb, accepted := mkParsed(tag)
		var child *biscuit.Biscuit
		var err error
		if pi := lib.Try(func() {
			bb := p.T.B.CreateBlock()
			_ = bb.AddBlock(pb) // stops at the duplicate with ErrDuplicateFact
			_ = bb.AddFact(after(tag).LibFact())
			child, err = p.T.B.Append(f.rng, bb.Build())
		}); pi != nil {
			c.Violate("addblock-panic/"+pi.Site, pi.Msg, nil)
		} else if err == nil {
			model := ast.Block{Facts: append(accepted, after(tag))}
			f.add(&Live{T: &lib.Token{B: child, Blocks: append(append([]ast.Block{}, p.T.Blocks...), model), Pub: p.T.Pub, Priv: p.T.Priv, KeyID: p.T.KeyID}, Prov: append(append([]int{}, p.Prov...), f.ev()), Origin: "append"}, "append(AddBlock with a refused duplicate)")
			c.Count("addblock_paths", 1)
		}
	}
	root := f.Tokens[0]
	tag := fmt.Sprintf("a%d", n)
	pb, accepted := mkParsed(tag)
	var tok *biscuit.Biscuit
	var err error
	if pi := lib.Try(func() {
		bld := biscuit.NewBuilder(root.T.Priv, biscuit.WithRNG(f.rng))
		_ = bld.AddBlock(pb)
		_ = bld.AddAuthorityFact(after(tag).LibFact())
		tok, err = bld.Build()
	}); pi != nil {
		c.Violate("addblock-panic/"+pi.Site, pi.Msg, nil)
	} else if err == nil {
		f.add(&Live{T: &lib.Token{B: tok, Blocks: []ast.Block{{Facts: append(accepted, after(tag))}}, Pub: root.T.Pub, Priv: root.T.Priv}, Prov: []int{f.ev()}, Origin: "build"}, "build(AddBlock with a refused duplicate)")
		c.Count("addblock_paths", 1)
	}
}

// c07CustomBaseTable: a token composed over an application symbol table (WithSymbols) that also
// lists names of the default table and repeats an entry - legal, if untidy. The builder and the
// reader (Unmarshaler with the same table) number symbols the same way: the re-loaded token
// prints and authorizes like the one in memory, before and after an attenuation.
func c07CustomBaseTable(c *core.C) {
	r := c.R
	tables := [][]string{
		{"tenant", "acme"},
		{"tenant", "read", "acme"},                 // "read" is a default symbol
		{"resource", "operation", "right", "acme"}, // the old default table
		{"tenant", "acme", "tenant"},               // a repeated entry
		{"role", "query", "tenant", "acme", "acme"},
	}
	tab := tables[c.Idx%len(tables)]
	base := &datalog.SymbolTable{}
	for _, n := range tab {
		*base = append(*base, n)
	}
	_, priv := lib.KeyPair(c.Seed, fmt.Sprintf("c07-custom-%d", c.Idx))
	pub := priv.Public().(ed25519.PublicKey)
	rng := lib.NewDetRand(c.Seed, fmt.Sprintf("c07-custom-rng-%d", c.Idx))
	var tok *biscuit.Biscuit
	var err error
	if pi := lib.Try(func() {
		bld := biscuit.NewBuilder(priv, biscuit.WithRNG(rng), biscuit.WithSymbols(base.Clone()))
		_ = bld.AddAuthorityFact(ast.P("right", ast.Str("file1"), ast.Str("read")).LibFact())
		_ = bld.AddAuthorityFact(ast.P("tenant", ast.Str("acme"), ast.Str(fmt.Sprintf("fresh_%d", r.Intn(9)))).LibFact())
		_ = bld.AddAuthorityCheck(ast.Check{Queries: []ast.Rule{{Head: ast.P("query"), Body: []ast.Pred{ast.P("tenant", ast.Var("t"), ast.Var("u"))}}}}.Lib())
		if tok, err = bld.Build(); err != nil {
			return
		}
		if r.Intn(2) == 0 {
			bb := tok.CreateBlock()
			_ = bb.AddFact(ast.P("added", ast.Str("another_fresh"), ast.Str("acme")).LibFact())
			tok, err = tok.Append(rng, bb.Build())
		}
	}); pi != nil {
		c.Violate("custom-table-panic/"+pi.Site, pi.Msg, map[string]any{"table": tab})
		return
	}
	if err != nil {
		c.Violate("build-refused", err.Error(), map[string]any{"table": tab})
		return
	}
	auths := []ast.AuthContent{
		{Policies: []ast.Policy{allowAll}},
		{Checks: []ast.Check{{Queries: []ast.Rule{{Head: ast.P("query"), Body: []ast.Pred{ast.P("right", ast.Str("file1"), ast.Str("read"))}}}}}, Policies: []ast.Policy{allowAll}},
		{Checks: []ast.Check{{Queries: []ast.Rule{{Head: ast.P("query"), Body: []ast.Pred{ast.P("tenant", ast.Str("acme"), ast.Var("x"))}}}}}, Policies: []ast.Policy{allowAll}},
	}
	view := func(b *biscuit.Biscuit) string {
		out := fmt.Sprint(b.Code())
		for _, a := range auths {
			out += " | " + string(lib.Observe(b, pub, a, nil).Class)
		}
		return out
	}
	var mem, rel string
	if pi := lib.Try(func() {
		mem = view(tok)
		ser, err := tok.Serialize()
		if err != nil {
			rel = "serialize: " + err.Error()
			return
		}
		rb, err := (&biscuit.Unmarshaler{Symbols: base.Clone()}).Unmarshal(ser)
		if err != nil {
			rel = "unmarshal: " + err.Error()
			return
		}
		rel = view(rb)
	}); pi != nil {
		c.Violate("custom-table-panic/"+pi.Site, pi.Msg, map[string]any{"table": tab})
		return
	}
	c.Eval(2)
	if mem != rel {
		c.Violate("unmarshal-changes/custom-base-table", fmt.Sprintf("base table %v: in memory %s, after Serialize and Unmarshaler{Symbols: table} %s", tab, core.Head(mem, 300), core.Head(rel, 300)), map[string]any{"table": tab, "in_memory": mem, "re_loaded": rel})
	}
	if !strings.Contains(mem, "OK") {
		c.Violate("custom-table-control", "the token composed over the custom table does not authorize at all: "+core.Head(mem, 300), map[string]any{"table": tab})
	}
	c.Count("custom_base_table_tokens", 1)
	c.NT(fmt.Sprintf("custom-table/%v/%d", tab, c.Idx%7))
}

func c07Run(c *core.C) {
	if c.Idx == 0 {
		c07Samples(c)
		return
	}
	f := newFamily(c.R, c.Seed, fmt.Sprintf("c07-%d", c.Idx), 3)
	var keyID *uint32
	if c.R.Intn(3) == 0 {
		id := gen.Pick(c.R, []uint32{0, 1, 123, 1 << 31, 0xffffffff})
		keyID = &id
	}
	mk := func() ast.Block { return richBlock(c.R, f.U, f.shared) }
	if !f.randomHistory(c, 3+c.R.Intn(5), keyID, mk) {
		return
	}
	c07AddBlockPath(c, f)
	c07CustomBaseTable(c)
	for i := range f.Tokens {
		c07CheckToken(c, f, i)
	}
	c07VersionGate(c, f)
}

func init() {
	core.Register(&core.Prop{
		ID:    "C07",
		Level: "exploration",
		Rule: "case 0: every loadable token of samples/data/current is decoded by the independent decoder R3 and re-serialized byte for byte. Other cases: a seeded history (build, then 3-7 steps of append / seal / re-load on random members) over blocks that use every term kind, sets of every element kind, random typed expression trees (all operator codes), default and fresh symbols, symbols shared between blocks, empty blocks and contexts; EVERY live token's bytes are decoded by R3 (hand-written protobuf reader, own default-symbol table) and compared block for block with what the callers supplied, the published symbol rules are checked, Unmarshal(bytes) is compared (String, revocation ids, key id, panel behaviour) and must re-serialize to the same bytes; one member is re-written by R3 with block versions {absent,0,1,2,3,4,5,2^31,2^32-1}, re-signed, and must be rejected unless the version is 3. " +
			"Non-trivial = distinct serialized tokens with >=2 blocks or >=1 expression; distinct wire term tags; version-gate labels.",
		Assumptions: []string{"R3's transcription of pb/biscuit.proto field numbers and of the default symbol table is the 'published schema'"},
		NumCases: func(tier string) int {
			if tier == "thorough" {
				return 50000
			}
			return 400
		},
		Run: c07Run,
		Floor: func(a *core.Agg) []string {
			u := []string{}
			for t := 1; t <= 7; t++ {
				if a.Cnt[fmt.Sprintf("wire_term_tag_%d", t)] == 0 {
					u = append(u, fmt.Sprintf("term tag %d never seen on the wire", t))
				}
			}
			for k := 0; k < ast.NumBinary; k++ {
				if a.Cnt[fmt.Sprintf("wire_binary_%02d", k)] == 0 {
					u = append(u, fmt.Sprintf("binary operator code %d never seen on the wire", k))
				}
			}
			for k := 0; k < 3; k++ {
				if a.Cnt[fmt.Sprintf("wire_unary_%d", k)] == 0 {
					u = append(u, fmt.Sprintf("unary operator code %d never seen on the wire", k))
				}
			}
			if a.Cnt["samples_loaded"] < 15 {
				u = append(u, "fewer than 15 sample tokens loaded")
			}
			if a.Cnt["version_gate_rejected"] < 100 {
				u = append(u, "version gate exercised < 100 times")
			}
			return u
		},
	})
}
