package props

import (
	"fmt"
	"math"
	"math/rand"
	"sort"
	"strings"
	"time"

	"github.com/biscuit-auth/biscuit-go/v2/datalog"

	"verif/harness/ast"
	"verif/harness/core"
	"verif/harness/dl"
	"verif/harness/gen"
	"verif/harness/lib"
	"verif/harness/ref"
)

// C05 - Datalog evaluation computes exactly the least fixpoint.
// Oracle: R1 (ref.Fixpoint / ref.Answers), set equality on canonical fact keys.

func bigWorld() *datalog.World {
	return datalog.NewWorld(datalog.WithMaxDuration(60*time.Second), datalog.WithMaxFacts(1000000), datalog.WithMaxIterations(100000))
}

// untyped pool: values of different kinds that print alike (typed-equality confusion)
var c05Mixed = []ast.Term{
	ast.Int(0), ast.Int(1), ast.Date(0), ast.Date(1), ast.Str("a"), ast.Str("b"), ast.Str("0"), ast.Bool(true), ast.Bool(false),
	ast.Bytes([]byte{1}), ast.Bytes([]byte{}), ast.SetOf(ast.Int(1)), ast.SetOf(ast.Int(1), ast.Int(2)), ast.SetOf(ast.Int(2), ast.Int(1)),
	ast.SetOf(ast.Bytes([]byte{1})), ast.SetOf(ast.Str("a")),
}

type c05Prog struct {
	Facts   []ast.Pred
	Rules   []ast.Rule
	Queries []ast.Rule
}

func (p c05Prog) text() map[string]any {
	fs, rs, qs := []string{}, []string{}, []string{}
	for _, f := range p.Facts {
		fs = append(fs, f.Key())
	}
	for _, r := range p.Rules {
		rs = append(rs, r.Key())
	}
	for _, q := range p.Queries {
		qs = append(qs, q.Key())
	}
	return map[string]any{"facts": fs, "rules": rs, "queries": qs}
}

// untyped programs: predicates p0..p3 with arity 0..3, constants from the mixed pool,
// variables x y z (repeated inside an atom and across atoms), recursion through shared names.
func c05Untyped(r *rand.Rand) c05Prog {
	arity := []int{r.Intn(4), r.Intn(4), 1 + r.Intn(2), 2}
	names := []string{"p0", "p1", "right", "edge"}
	pool := []ast.Term{}
	for _, i := range r.Perm(len(c05Mixed))[:3+r.Intn(4)] {
		pool = append(pool, c05Mixed[i])
	}
	vars := []string{"x", "y", "z"}
	atom := func(pconst float64) ast.Pred {
		i := r.Intn(len(names))
		p := ast.Pred{Name: names[i], Terms: make([]ast.Term, arity[i])}
		for j := range p.Terms {
			if r.Float64() < pconst {
				p.Terms[j] = gen.Pick(r, pool)
			} else {
				p.Terms[j] = ast.Var(gen.Pick(r, vars))
			}
		}
		return p
	}
	prog := c05Prog{}
	seen := map[string]bool{}
	for i, n := 0, 1+r.Intn(8); i < n; i++ {
		f := atom(1)
		if !seen[f.Key()] {
			seen[f.Key()] = true
			prog.Facts = append(prog.Facts, f)
		}
	}
	mkRule := func() ast.Rule {
		body := []ast.Pred{}
		bound := map[string]bool{}
		for i, n := 0, 1+r.Intn(3); i < n; i++ {
			a := atom(0.3)
			body = append(body, a)
			for _, t := range a.Terms {
				if t.K == ast.KVar {
					bound[t.S] = true
				}
			}
		}
		bv := []string{}
		for v := range bound {
			bv = append(bv, v)
		}
		sort.Strings(bv)
		i := r.Intn(len(names))
		head := ast.Pred{Name: names[i], Terms: make([]ast.Term, arity[i])}
		for j := range head.Terms {
			if len(bv) > 0 && r.Intn(4) != 0 {
				head.Terms[j] = ast.Var(gen.Pick(r, bv))
			} else {
				head.Terms[j] = gen.Pick(r, pool)
			}
		}
		rule := ast.Rule{Head: head, Body: body}
		if len(bv) > 0 && r.Intn(3) == 0 {
			// a filter that is well typed for every kind: v == v, or set-free equality with itself negated twice
			v := ast.OV(ast.Var(gen.Pick(r, bv)))
			if r.Intn(2) == 0 {
				rule.Exprs = append(rule.Exprs, ast.Expr{v, v, ast.OB(ast.BEqual)})
			} else {
				rule.Exprs = append(rule.Exprs, ast.Expr{v, v, ast.OB(ast.BEqual), ast.OU(ast.UNegate), ast.OU(ast.UNegate), ast.OU(ast.UParens)})
			}
		}
		return rule
	}
	for i, n := 0, r.Intn(4); i < n; i++ {
		prog.Rules = append(prog.Rules, mkRule())
	}
	if r.Intn(8) == 0 {
		// empty-body rule: derives its ground head unconditionally
		i := r.Intn(len(names))
		head := ast.Pred{Name: names[i], Terms: make([]ast.Term, arity[i])}
		for j := range head.Terms {
			head.Terms[j] = gen.Pick(r, pool)
		}
		prog.Rules = append(prog.Rules, ast.Rule{Head: head})
	}
	for i, n := 0, 1+r.Intn(2); i < n; i++ {
		q := mkRule()
		if r.Intn(2) == 0 {
			q.Head.Name = "ans" // otherwise the head keeps a predicate of the program: answers may equal existing facts
		}
		prog.Queries = append(prog.Queries, q)
	}
	if len(prog.Facts) > 0 {
		// the identity query over an existing predicate: every answer IS an existing fact
		f := gen.Pick(r, prog.Facts)
		p := ast.Pred{Name: f.Name, Terms: make([]ast.Term, len(f.Terms))}
		for j := range p.Terms {
			p.Terms[j] = ast.Var(fmt.Sprintf("id%d", j))
		}
		prog.Queries = append(prog.Queries, ast.Rule{Head: p, Body: []ast.Pred{p}})
	}
	return prog
}

func c05Typed(r *rand.Rand) c05Prog {
	u := gen.NewUniverse(r)
	o := gen.RuleOpts{PConst: 0.3, PExpr: 0.4, PErr: 0.03, MaxBody: 3}
	prog := c05Prog{}
	seen := map[string]bool{}
	for i, n := 0, 2+r.Intn(10); i < n; i++ {
		f := u.Fact(r)
		if !seen[f.Key()] {
			seen[f.Key()] = true
			prog.Facts = append(prog.Facts, f)
		}
	}
	for i, n := 0, r.Intn(5); i < n; i++ {
		prog.Rules = append(prog.Rules, u.Rule(r, o))
	}
	for i, n := 0, 1+r.Intn(2); i < n; i++ {
		q := u.Rule(r, o)
		if r.Intn(2) == 0 {
			q.Head.Name = "ans"
		}
		prog.Queries = append(prog.Queries, q)
	}
	if len(prog.Facts) > 0 {
		f := gen.Pick(r, prog.Facts)
		p := ast.Pred{Name: f.Name, Terms: make([]ast.Term, len(f.Terms))}
		for j := range p.Terms {
			p.Terms[j] = ast.Var(fmt.Sprintf("id%d", j))
		}
		prog.Queries = append(prog.Queries, ast.Rule{Head: p, Body: []ast.Pred{p}})
	}
	return prog
}

// chain programs: force many iterations and real recursion
func c05Chain(r *rand.Rand) c05Prog {
	n := 3 + r.Intn(12)
	prog := c05Prog{}
	for i := 0; i < n; i++ {
		prog.Facts = append(prog.Facts, ast.P("edge", ast.Int(int64(i)), ast.Int(int64(i+1))))
	}
	if r.Intn(2) == 0 {
		prog.Facts = append(prog.Facts, ast.P("edge", ast.Int(int64(n)), ast.Int(0))) // cycle
	}
	x, y, z := ast.Var("x"), ast.Var("y"), ast.Var("z")
	prog.Rules = append(prog.Rules, ast.Rule{Head: ast.P("path", x, y), Body: []ast.Pred{ast.P("edge", x, y)}})
	switch r.Intn(3) {
	case 0: // linear
		prog.Rules = append(prog.Rules, ast.Rule{Head: ast.P("path", x, z), Body: []ast.Pred{ast.P("edge", x, y), ast.P("path", y, z)}})
	case 1: // non-linear
		prog.Rules = append(prog.Rules, ast.Rule{Head: ast.P("path", x, z), Body: []ast.Pred{ast.P("path", x, y), ast.P("path", y, z)}})
	default: // mutual recursion
		prog.Rules = append(prog.Rules, ast.Rule{Head: ast.P("odd", x, y), Body: []ast.Pred{ast.P("edge", x, y)}})
		prog.Rules = append(prog.Rules, ast.Rule{Head: ast.P("even", x, z), Body: []ast.Pred{ast.P("odd", x, y), ast.P("edge", y, z)}})
		prog.Rules = append(prog.Rules, ast.Rule{Head: ast.P("odd", x, z), Body: []ast.Pred{ast.P("even", x, y), ast.P("edge", y, z)}})
	}
	prog.Queries = append(prog.Queries, ast.Rule{Head: ast.P("ans", x), Body: []ast.Pred{ast.P("path", x, x)}})
	prog.Queries = append(prog.Queries, ast.Rule{Head: ast.P("ans", x, y), Body: []ast.Pred{ast.P("path", x, y)}, Exprs: []ast.Expr{{ast.OV(x), ast.OV(y), ast.OB(ast.BLessThan)}}})
	return prog
}

func diffKeys(want, got []string) (missing, extra []string) {
	w := map[string]bool{}
	g := map[string]bool{}
	for _, k := range want {
		w[k] = true
	}
	for _, k := range got {
		g[k] = true
	}
	for k := range w {
		if !g[k] {
			missing = append(missing, k)
		}
	}
	for k := range g {
		if !w[k] {
			extra = append(extra, k)
		}
	}
	sort.Strings(missing)
	sort.Strings(extra)
	return
}

func c05RunProg(c *core.C, kind string, prog c05Prog) {
	r := c.R
	c.Eval(1)
	want := ref.Fixpoint(prog.Facts, prog.Rules, 50000)
	if want.Diverged {
		c.Inconc("reference budget exceeded")
		return
	}
	if want.Lenient {
		c.Count("lenient_programs", 1)
		return
	}
	// shuffle fact and rule order: the least model does not depend on them
	facts := append([]ast.Pred{}, prog.Facts...)
	r.Shuffle(len(facts), func(i, j int) { facts[i], facts[j] = facts[j], facts[i] })
	s := dl.NewSyms()
	w := bigWorld()
	var runErr error
	var gotKeys []string
	var backErr error
	pi := lib.Try(func() {
		for _, f := range facts {
			w.AddFact(datalog.Fact{Predicate: s.Pred(f)})
		}
		for _, rl := range prog.Rules {
			w.AddRule(s.Rule(rl))
		}
		runErr = w.Run(s.T)
		if runErr == nil {
			gotKeys, backErr = s.FactKeys(w.Facts())
		}
	})
	wit := func(extra map[string]any) any {
		m := prog.text()
		m["kind"] = kind
		m["fact_order"] = ast.FactSetKeys(facts)
		for k, v := range extra {
			m[k] = v
		}
		return m
	}
	switch {
	case pi != nil:
		c.Violate("run-panic/"+pi.Site, "World.Run panicked: "+pi.Msg, wit(map[string]any{"panic": pi}))
		return
	case lib.IsLimit(runErr):
		c.Inconc("limit sentinel under large limits")
		return
	case want.Err && runErr == nil:
		c.Violate("run-ok-where-reference-errors/"+kind, "Run returned nil although a reachable substitution makes an expression fail / a head variable is unbound", wit(nil))
		return
	case want.Err:
		c.Count("erroring_programs", 1)
		return
	case runErr != nil:
		c.Violate("run-error-on-error-free-program/"+kind, "Run failed on an error-free program: "+runErr.Error(), wit(nil))
		return
	case backErr != nil:
		c.Violate("run-unresolvable-fact/"+kind, backErr.Error(), wit(nil))
		return
	}
	miss, extra := diffKeys(want.Facts.Keys(), gotKeys)
	if len(gotKeys) != len(want.Facts) && len(miss) == 0 && len(extra) == 0 {
		c.Violate("run-duplicate-facts/"+kind, fmt.Sprintf("world holds %d facts for a least model of %d (duplicates)", len(gotKeys), len(want.Facts)), wit(nil))
	}
	if len(miss) > 0 {
		c.Violate("run-missing-facts/"+kind, fmt.Sprintf("derivable facts missing: %s", core.Head(strings.Join(miss, " "), 300)), wit(map[string]any{"missing": miss, "extra": extra}))
	}
	if len(extra) > 0 {
		c.Violate("run-extra-facts/"+kind, fmt.Sprintf("underivable facts present: %s", core.Head(strings.Join(extra, " "), 300)), wit(map[string]any{"missing": miss, "extra": extra}))
	}
	inputN := len(ast.FactSetKeys(prog.Facts))
	if len(want.Facts) > inputN {
		c.NT("prog/" + core.JSON(prog.text()))
		c.Count("programs_deriving_new_facts", 1)
	}
	c.Count(fmt.Sprintf("rounds_%02d", min(want.Rounds, 20)), 1)

	// the same program evaluated in a CLONE of the world it was entered into (the original is not
	// used again): a clone holds the same facts, rules and limits, so it has the same least model
	if len(prog.Rules) > 0 && len(want.Facts) > inputN {
		c.Eval(1)
		s3 := dl.NewSyms()
		var cErr, cBack error
		var cKeys []string
		if pi := lib.Try(func() {
			orig := bigWorld()
			for _, f := range prog.Facts {
				orig.AddFact(datalog.Fact{Predicate: s3.Pred(f)})
			}
			for _, rl := range prog.Rules {
				orig.AddRule(s3.Rule(rl))
			}
			cl := orig.Clone()
			if cErr = cl.Run(s3.T); cErr == nil {
				cKeys, cBack = s3.FactKeys(cl.Facts())
			}
		}); pi != nil {
			c.Violate("run-panic/"+pi.Site, "World.Clone().Run panicked: "+pi.Msg, wit(nil))
		} else if cErr != nil {
			c.Violate("clone-run-error-on-error-free-program/"+kind, cErr.Error(), wit(nil))
		} else if cBack == nil {
			if m, e := diffKeys(want.Facts.Keys(), cKeys); len(m) > 0 || len(e) > 0 {
				c.Violate("cloned-world-has-another-least-model/"+kind, fmt.Sprintf("World.Clone().Run: missing %s extra %s", core.Head(strings.Join(m, " "), 150), core.Head(strings.Join(e, " "), 150)), wit(map[string]any{"missing": m, "extra": e}))
			}
		}
		c.Count("cloned_world_runs", 1)
	}

	// the same program with the fact limit just above the size of its least model: it stays
	// within the limit, so the run must still end without error on exactly the least model
	// (a budget that also counts re-derived facts would stop short of it)
	if want.Rounds >= 2 && len(want.Facts) > inputN {
		c.Eval(1)
		tight := datalog.NewWorld(datalog.WithMaxDuration(60*time.Second), datalog.WithMaxFacts(len(want.Facts)+1), datalog.WithMaxIterations(100000))
		s2 := dl.NewSyms()
		var tErr, tBack error
		var tKeys []string
		if pi := lib.Try(func() {
			for _, f := range prog.Facts {
				tight.AddFact(datalog.Fact{Predicate: s2.Pred(f)})
			}
			for _, rl := range prog.Rules {
				tight.AddRule(s2.Rule(rl))
			}
			if tErr = tight.Run(s2.T); tErr == nil {
				tKeys, tBack = s2.FactKeys(tight.Facts())
			}
		}); pi != nil {
			c.Violate("run-panic/"+pi.Site, "World.Run panicked under a tight fact limit: "+pi.Msg, wit(nil))
		} else if tErr != nil {
			c.Violate("run-error-within-the-fact-limit/"+kind, fmt.Sprintf("least model of %d facts, limit %d: %v", len(want.Facts), len(want.Facts)+1, tErr), wit(nil))
		} else if tBack == nil {
			if m, e := diffKeys(want.Facts.Keys(), tKeys); len(m) > 0 || len(e) > 0 {
				c.Violate("run-stops-short-near-the-fact-limit/"+kind, fmt.Sprintf("least model of %d facts, limit %d: Run returned nil with %d facts, missing %s", len(want.Facts), len(want.Facts)+1, len(tKeys), core.Head(strings.Join(m, " "), 200)), wit(map[string]any{"missing": m, "extra": e}))
			}
		}
		c.Count("tight_fact_limit_runs", 1)
	}

	// queries on the completed world
	for _, q := range prog.Queries {
		c.Eval(1)
		ans, fl := ref.Answers(q, want.Facts, nil)
		if fl.Lenient || fl.Mixed {
			c.Count("lenient_queries", 1)
			continue
		}
		var qKeys []string
		var qBack error
		pi := lib.Try(func() {
			res := w.QueryRule(s.Rule(q), s.T)
			qKeys, qBack = s.FactKeys(res)
		})
		if pi != nil {
			c.Violate("query-panic/"+pi.Site, "QueryRule panicked: "+pi.Msg, wit(map[string]any{"query": q.Key(), "panic": pi}))
			continue
		}
		if qBack != nil {
			c.Violate("query-unresolvable/"+kind, qBack.Error(), wit(map[string]any{"query": q.Key()}))
			continue
		}
		if fl.Err {
			// uniformly failing (no answers at all): the library must return nothing
			if len(qKeys) != 0 {
				c.Violate("query-answers-despite-error/"+kind, "answers returned although every complete substitution errors", wit(map[string]any{"query": q.Key(), "got": qKeys}))
			}
			continue
		}
		m, e := diffKeys(ans.Keys(), qKeys)
		if len(m) > 0 || len(e) > 0 || len(qKeys) != len(ans) {
			c.Violate("query-wrong-answers/"+kind, fmt.Sprintf("query %s: missing %v extra %v (got %d, want %d)", q.Key(), m, e, len(qKeys), len(ans)), wit(map[string]any{"query": q.Key(), "missing": m, "extra": e}))
		}
		if len(ans) >= 2 {
			c.NT("query/" + q.Key() + "/" + core.JSON(want.Facts.Keys()))
		}
	}
	c.Sample(wit(map[string]any{"least_model_size": len(want.Facts), "rounds": want.Rounds}))
}

// ---- bounded-exhaustive scope for the join enumerator --------------------------------------

var c05Atoms = func() []ast.Pred {
	args := []ast.Term{ast.Var("x"), ast.Var("y"), ast.Int(0), ast.Int(1)}
	out := []ast.Pred{}
	for _, a := range args {
		out = append(out, ast.P("p", a))
	}
	for _, a := range args {
		for _, b := range args {
			out = append(out, ast.P("q", a, b))
		}
	}
	return out
}()

var c05Ground = []ast.Pred{
	ast.P("p", ast.Int(0)), ast.P("p", ast.Int(1)),
	ast.P("q", ast.Int(0), ast.Int(0)), ast.P("q", ast.Int(0), ast.Int(1)), ast.P("q", ast.Int(1), ast.Int(0)), ast.P("q", ast.Int(1), ast.Int(1)),
}

var c05Bodies = func() [][]ast.Pred {
	out := [][]ast.Pred{}
	n := len(c05Atoms)
	for i := 0; i < n; i++ {
		out = append(out, []ast.Pred{c05Atoms[i]})
	}
	for i := 0; i < n; i++ {
		for j := 0; j < n; j++ {
			out = append(out, []ast.Pred{c05Atoms[i], c05Atoms[j]})
		}
	}
	for i := 0; i < n; i++ {
		for j := 0; j < n; j++ {
			for k := 0; k < n; k++ {
				out = append(out, []ast.Pred{c05Atoms[i], c05Atoms[j], c05Atoms[k]})
			}
		}
	}
	return out
}()

var c05FactLists = func() [][]ast.Pred {
	out := [][]ast.Pred{{}}
	var rec func(cur []int)
	rec = func(cur []int) {
		if len(cur) > 0 {
			l := []ast.Pred{}
			for _, i := range cur {
				l = append(l, c05Ground[i])
			}
			out = append(out, l)
		}
		if len(cur) == 4 {
			return
		}
		for i := range c05Ground {
			used := false
			for _, j := range cur {
				if i == j {
					used = true
				}
			}
			if !used {
				rec(append(append([]int{}, cur...), i))
			}
		}
	}
	rec(nil)
	return out
}()

const c05BodiesPerCase = 20

func c05ExhaustiveCases() int { return (len(c05Bodies) + c05BodiesPerCase - 1) / c05BodiesPerCase }

func c05Exhaustive(c *core.C, chunk int) {
	lo := chunk * c05BodiesPerCase
	hi := min(lo+c05BodiesPerCase, len(c05Bodies))
	for bi := lo; bi < hi; bi++ {
		body := c05Bodies[bi]
		hv := []ast.Term{}
		seen := map[string]bool{}
		for _, a := range body {
			for _, t := range a.Terms {
				if t.K == ast.KVar && !seen[t.S] {
					seen[t.S] = true
					hv = append(hv, t)
				}
			}
		}
		q := ast.Rule{Head: ast.Pred{Name: "ans", Terms: hv}, Body: body}
		for li, fl := range c05FactLists {
			if !c.Thorough() && c.R.Intn(50) != 0 {
				continue
			}
			// every other point uses a head over the program's own predicate, so that answers can
			// coincide with facts that already exist
			q.Head.Name = "ans"
			if (bi+li)%2 == 1 && len(hv) == 1 {
				q.Head.Name = "p"
			} else if (bi+li)%2 == 1 && len(hv) == 2 {
				q.Head.Name = "q"
			}
			c.Eval(1)
			facts := ref.Facts{}
			for _, f := range fl {
				facts.Add(f)
			}
			want, _ := ref.Answers(q, facts, nil)
			s := dl.NewSyms()
			w := bigWorld()
			var got []string
			var berr error
			pi := lib.Try(func() {
				for _, f := range fl {
					w.AddFact(datalog.Fact{Predicate: s.Pred(f)})
				}
				got, berr = s.FactKeys(w.QueryRule(s.Rule(q), s.T))
			})
			key := "odometer"
			wit := map[string]any{"query": q.Key(), "facts_in_order": func() []string {
				o := []string{}
				for _, f := range fl {
					o = append(o, f.Key())
				}
				return o
			}()}
			if pi != nil {
				c.Violate(key+"-panic/"+pi.Site, pi.Msg, wit)
				continue
			}
			if berr != nil {
				c.Violate(key+"-unresolvable", berr.Error(), wit)
				continue
			}
			m, e := diffKeys(want.Keys(), got)
			if len(m) > 0 || len(e) > 0 || len(got) != len(want) {
				wit["missing"], wit["extra"] = m, e
				c.Violate(key+"-wrong-answers", fmt.Sprintf("%s over %v: missing %v extra %v", q.Key(), wit["facts_in_order"], m, e), wit)
			}
			if len(want) > 0 {
				c.NT(fmt.Sprintf("odo/%d/%d", bi, li))
			}
			if bi == lo && li < 400 && len(want) >= 2 {
				c.Sample(map[string]any{"kind": "exhaustive join scope", "query": q.Key(), "facts": wit["facts_in_order"], "answers": want.Keys()})
			}
		}
	}
}

func c05RandomCount(tier string) int {
	if tier == "thorough" {
		return 30000
	}
	return 600
}
func c05RaceCount(tier string) int {
	if tier == "thorough" {
		return 300
	}
	return 0
}

// c05RegexPair: two programs of the same shape evaluated one after the other, each with its own
// symbol table, whose regular expressions differ although they are interned at the same symbol
// index: whatever an evaluator remembers between programs must not be keyed by the index.
func c05RegexPair(c *core.C) {
	r := c.R
	words := []string{"apple", "avocado", "banana", "blueberry", "cherry", "date", "elderberry", "fig"}
	pats := []string{"^a", "^b", "y$", "an", "^[c-f]", "e.*e", "^$", "rr"}
	i := r.Intn(len(pats))
	j := (i + 1 + r.Intn(len(pats)-1)) % len(pats)
	for _, pat := range []string{pats[i], pats[j], pats[i]} {
		prog := c05Prog{}
		for _, w := range words {
			prog.Facts = append(prog.Facts, ast.P("word", ast.Str(w)))
		}
		e := ast.Expr{ast.OV(ast.Var("w")), ast.OV(ast.Str(pat)), ast.OB(int(ast.BRegex))}
		prog.Rules = []ast.Rule{{Head: ast.P("hit", ast.Var("w")), Body: []ast.Pred{ast.P("word", ast.Var("w"))}, Exprs: []ast.Expr{e}}}
		prog.Queries = []ast.Rule{{Head: ast.P("ans", ast.Var("w")), Body: []ast.Pred{ast.P("word", ast.Var("w"))}, Exprs: []ast.Expr{e}}}
		c05RunProg(c, "regex-pair", prog)
	}
	c.Count("regex_pairs", 1)
}

// c05BoundaryArith: one fact, one rule whose expression does 64-bit arithmetic on the boundary
// values inside the engine (q($x,$y) <- p($x,$y), $x op $y < 0): where the exact result does not
// fit, the run fails and derives nothing; where it fits, the least model is the reference's.
func c05BoundaryArith(c *core.C) {
	vals := []int64{math.MinInt64, math.MinInt64 + 1, -2, -1, 0, 1, 2, math.MaxInt64 - 1, math.MaxInt64, 3037000500, -3037000500, 1 << 32, 1<<32 - 1}
	x, y := ast.Var("x"), ast.Var("y")
	for _, op := range []int{int(ast.BAdd), int(ast.BSub), int(ast.BMul), int(ast.BDiv)} {
		for _, a := range vals {
			for _, b := range vals {
				prog := c05Prog{Facts: []ast.Pred{ast.P("p", ast.Int(a), ast.Int(b))}}
				e := ast.Expr{ast.OV(x), ast.OV(y), ast.OB(op), ast.OV(ast.Int(0)), ast.OB(int(ast.BLessThan))}
				prog.Rules = []ast.Rule{{Head: ast.P("q", x, y), Body: []ast.Pred{ast.P("p", x, y)}, Exprs: []ast.Expr{e}}}
				prog.Queries = []ast.Rule{{Head: ast.P("ans", x, y), Body: []ast.Pred{ast.P("p", x, y)}, Exprs: []ast.Expr{e}}}
				c05RunProg(c, "boundary-arith", prog)
			}
		}
	}
	c.Count("boundary_arith_programs", 4*len(vals)*len(vals))
	// the ordering operators and == on the same pairs: the difference of two operands need not fit 64 bits
	for _, op := range []int{int(ast.BLessThan), int(ast.BLessOrEqual), int(ast.BGreaterThan), int(ast.BGreaterOrEqual), int(ast.BEqual)} {
		prog := c05Prog{}
		for _, a := range vals {
			for _, b := range vals {
				prog.Facts = append(prog.Facts, ast.P("p", ast.Int(a), ast.Int(b)))
			}
		}
		e := ast.Expr{ast.OV(x), ast.OV(y), ast.OB(op)}
		prog.Rules = []ast.Rule{{Head: ast.P("q", x, y), Body: []ast.Pred{ast.P("p", x, y)}, Exprs: []ast.Expr{e}}}
		prog.Queries = []ast.Rule{{Head: ast.P("ans", x, y), Body: []ast.Pred{ast.P("p", x, y)}, Exprs: []ast.Expr{e}}}
		c05RunProg(c, "boundary-compare", prog)
		// the same against a constant on either side
		for _, k := range vals {
			pk := c05Prog{}
			for _, a := range vals {
				pk.Facts = append(pk.Facts, ast.P("v", ast.Int(a)))
			}
			e1 := ast.Expr{ast.OV(x), ast.OV(ast.Int(k)), ast.OB(op)}
			e2 := ast.Expr{ast.OV(ast.Int(k)), ast.OV(x), ast.OB(op)}
			pk.Rules = []ast.Rule{{Head: ast.P("lo", x), Body: []ast.Pred{ast.P("v", x)}, Exprs: []ast.Expr{e1}}, {Head: ast.P("hi", x), Body: []ast.Pred{ast.P("v", x)}, Exprs: []ast.Expr{e2}}}
			pk.Queries = []ast.Rule{{Head: ast.P("ans", x), Body: []ast.Pred{ast.P("v", x)}, Exprs: []ast.Expr{e1}}}
			c05RunProg(c, "boundary-compare", pk)
		}
		c.Count("boundary_compare_programs", 1+len(vals))
	}
	c05SetJoins(c)
}

// c05SetJoins: sets are values, whatever order their members were written in (sets written with a
// repeated member are outside what the reference decides, see ref/expr.go, and are not used here).
// A variable bound at two body positions, a set constant in a body and a repeated variable inside
// one atom must all match a fact that holds the same set spelled differently.
func c05SetJoins(c *core.C) {
	mk := func(k int, xs ...int) ast.Term {
		t := ast.Term{K: ast.KSet}
		for _, v := range xs {
			switch k {
			case 0:
				t.Set = append(t.Set, ast.Int(int64(v)))
			case 1:
				t.Set = append(t.Set, ast.Str(fmt.Sprintf("m%d", v)))
			default:
				t.Set = append(t.Set, ast.Bytes([]byte{byte(v), 0xff}))
			}
		}
		return t
	}
	spell := [][][]int{
		{{3, 4, 5}, {5, 3, 4}, {4, 5, 3}},
		{{1, 2}, {2, 1}, {2, 1}},
		{{7}, {7}, {7}},
		{{1, 2, 3, 4, 5, 6, 7, 8, 9}, {9, 8, 7, 6, 5, 4, 3, 2, 1}, {5, 1, 9, 2, 8, 3, 7, 4, 6}},
	}
	a, b, sv := ast.Var("a"), ast.Var("b"), ast.Var("s")
	n := 0
	for k := 0; k < 3; k++ {
		for _, sp := range spell {
			s0, s1, s2 := mk(k, sp[0]...), mk(k, sp[1]...), mk(k, sp[2]...)
			other := mk(k, 100, 101)
			prog := c05Prog{Facts: []ast.Pred{
				ast.P("granted", ast.Str("b"), s0), ast.P("granted", ast.Str("c"), other),
				ast.P("required", ast.Int(20), s1), ast.P("required", ast.Int(30), other),
				ast.P("twice", s0, s1), ast.P("twice", s0, other),
			}}
			prog.Rules = []ast.Rule{
				{Head: ast.P("ok", a, b), Body: []ast.Pred{ast.P("granted", a, sv), ast.P("required", b, sv)}},
				{Head: ast.P("same", sv), Body: []ast.Pred{ast.P("twice", sv, sv)}},
				{Head: ast.P("konst", a), Body: []ast.Pred{ast.P("granted", a, s2)}},
				{Head: ast.P("reach", b), Body: []ast.Pred{ast.P("ok", a, b)}},
			}
			prog.Queries = []ast.Rule{
				{Head: ast.P("ans", a, b), Body: []ast.Pred{ast.P("granted", a, sv), ast.P("required", b, sv)}},
				{Head: ast.P("ans2", b), Body: []ast.Pred{ast.P("required", b, s2)}},
				{Head: ast.P("ans3", sv), Body: []ast.Pred{ast.P("twice", sv, sv)}},
			}
			c05RunProg(c, "set-join", prog)
			n++
		}
	}
	c.Count("set_join_programs", n)
}

func c05Run(c *core.C) {
	nx := c05ExhaustiveCases()
	if c.Idx == nx {
		c05BoundaryArith(c)
	}
	switch {
	case c.Idx < nx:
		c05Exhaustive(c, c.Idx)
	default:
		c05RegexPair(c)
		for i := 0; i < 20; i++ {
			switch c.R.Intn(5) {
			case 0, 1:
				c05RunProg(c, "untyped", c05Untyped(c.R))
			case 2, 3:
				c05RunProg(c, "typed", c05Typed(c.R))
			default:
				c05RunProg(c, "chain", c05Chain(c.R))
			}
		}
	}
}

func init() {
	core.Register(&core.Prop{
		ID:        "C05",
		MinCounts: map[string]int{"tight_fact_limit_runs": 1000, "regex_pairs": 300, "boundary_compare_programs": 70, "set_join_programs": 12},
		Level:     "exploration",
		Rule: "cases 0..420: bounded-exhaustive scope for the join enumerator - every body of 1-3 atoms over {p/1,q/2} with arguments {x,y,0,1} (8420 bodies) x every ordered duplicate-free fact list of length <=4 over six ground facts (517 lists): complete in thorough, a seeded 2% sample in quick. Later cases: 20 random programs each (untyped mixed-kind constants with repeated variables, typed schema programs with expression filters, recursive chain/cycle programs incl. mutual recursion), facts presented in shuffled order, World.Run and QueryRule compared with the reference least fixpoint R1 (naive iteration + back-tracking unification). thorough additionally repeats random programs under the race detector. " +
			"Non-trivial = program whose least model is strictly larger than its input facts (distinct by program text), query with >=2 answers, exhaustive-scope point with >=1 answer.",
		Assumptions: []string{"large limits (60 s, 1e6 facts, 1e5 iterations); a limit sentinel is recorded as inconclusive", "programs flagged lenient by R2 (mixed-kind set ops, non-boolean filters) are skipped and counted"},
		NumCases:    func(tier string) int { return c05ExhaustiveCases() + c05RandomCount(tier) + c05RaceCount(tier) },
		RaceFrom: func(tier string) int {
			if tier == "thorough" {
				return c05ExhaustiveCases() + c05RandomCount(tier)
			}
			return -1
		},
		Run: c05Run,
		Floor: func(a *core.Agg) []string {
			u := []string{}
			if a.Cnt["programs_deriving_new_facts"] < 500 {
				u = append(u, fmt.Sprintf("programs deriving new facts %d < 500", a.Cnt["programs_deriving_new_facts"]))
			}
			if len(a.NT) < 2000 {
				u = append(u, fmt.Sprintf("distinct non-trivial %d < 2000", len(a.NT)))
			}
			return u
		},
		Exhaustive: func(tier string) bool { return false },
	})
}
