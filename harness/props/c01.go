package props

import (
	"crypto/ed25519"
	"crypto/sha256"
	"encoding/hex"
	"fmt"
	"os"
	"path/filepath"
	"sort"
	"strings"

	biscuit "github.com/biscuit-auth/biscuit-go/v2"
	"github.com/biscuit-auth/biscuit-go/v2/datalog"

	"verif/harness/ast"
	"verif/harness/core"
	"verif/harness/gen"
	"verif/harness/lib"
	"verif/harness/wire"
)

// C01 - only an unbroken root-signed signature chain verifies.
// Oracle: R3 chain verifier. (reject) R3 decodes X canonically and says the chain is broken
// under K  =>  the library must return an error from Unmarshal or AuthorizerFor, and no Datalog
// iteration may run before the rejection. (accept) library-made tokens and spec-conformant
// chains written by R3 must be accepted under the matching key.

type c01Verdict struct {
	decodable bool
	chainOK   bool
	why       string
}

func r3Verdict(x []byte, k ed25519.PublicKey) c01Verdict {
	env, err := wire.Decode(x)
	if err != nil {
		return c01Verdict{why: err.Error()}
	}
	if env.NonCanonical {
		return c01Verdict{why: "non-canonical encoding"}
	}
	if err := wire.VerifyChain(env, k); err != nil {
		return c01Verdict{decodable: true, why: err.Error()}
	}
	return c01Verdict{decodable: true, chainOK: true}
}

// libAccepts presents X under K. accepted = an Authorizer was returned.
var c01UnrelatedKey, _ = lib.KeyPair(1, "c01-unrelated-key-nobody-signs-with")

func libAccepts(x []byte, src biscuit.PublickKeyByIDProjection) (accepted bool, stage string, errText string, iters int64, unstable string, pi *lib.PanicInfo) {
	before := datalog.VerifCounters()["run.iter"]
	pi = lib.Try(func() {
		b, err := biscuit.Unmarshal(x)
		if err != nil {
			stage, errText = "unmarshal", err.Error()
			return
		}
		_, err = b.AuthorizerFor(src, lib.BigLimits())
		// the verdict belongs to (bytes, key), not to the call: the same token object is
		// presented again under the same key, under an unrelated key, and under the first key
		// once more; an object that remembers an earlier verification must not answer differently
		for k := 0; k < 3; k++ {
			s2 := src
			if k == 1 {
				s2 = biscuit.WithSingularRootPublicKey(c01UnrelatedKey)
			}
			_, e2 := b.AuthorizerFor(s2, lib.BigLimits())
			if k != 1 && (e2 == nil) != (err == nil) {
				unstable = fmt.Sprintf("AuthorizerFor on the same token object and key: first call err=%v, call %d err=%v", err, k+2, e2)
			}
			if k == 1 && e2 == nil {
				unstable = "AuthorizerFor accepted the token under an unrelated random key after it had been presented under another key"
			}
		}
		if err != nil {
			stage, errText = "authorizer", err.Error()
			return
		}
		accepted = true
	})
	iters = datalog.VerifCounters()["run.iter"] - before
	return
}

// tokenHasNoKeyID reports whether the bytes decode to a token that carries no root key identifier
// (callers other than C01's own families do not always know).
func tokenHasNoKeyID(x []byte) bool {
	env, err := wire.Decode(x)
	return err == nil && env.RootKeyID == nil
}

func c01Present(c *core.C, m Mutant, origin string, keys map[string]ed25519.PublicKey, keyID *uint32, seen map[string]bool) {
	h := sha256.Sum256(m.Bytes)
	hk := hex.EncodeToString(h[:8])
	dup := seen[hk]
	seen[hk] = true
	names := make([]string, 0, len(keys))
	for n := range keys {
		names = append(names, n)
	}
	sort.Strings(names)
	for _, kn := range names {
		k := keys[kn]
		c.Eval(1)
		v := r3Verdict(m.Bytes, k)
		var src biscuit.PublickKeyByIDProjection = biscuit.WithSingularRootPublicKey(k)
		via := "singular"
		if keyID != nil && c.R.Intn(2) == 0 {
			src = biscuit.WithRootPublicKeys(map[uint32]ed25519.PublicKey{*keyID: k}, nil)
			via = "by-id"
		} else if keyID == nil && c.R.Intn(3) == 0 && tokenHasNoKeyID(m.Bytes) {
			// the key presented as the DEFAULT key of a key set (the token carries no identifier);
			// the set also registers an unrelated key under an identifier
			kk := k
			src = biscuit.WithRootPublicKeys(map[uint32]ed25519.PublicKey{7: c01UnrelatedKey}, &kk)
			via = "by-default-key"
		}
		acc, stage, errText, iters, unstable, pi := libAccepts(m.Bytes, src)
		wit := func() any {
			return map[string]any{"class": m.Class, "origin": origin, "key": kn, "via": via, "token_hex": hex.EncodeToString(m.Bytes), "key_hex": hex.EncodeToString(k), "reference": v, "reference_why": v.why, "library_stage": stage, "library_error": errText}
		}
		if pi != nil {
			c.Violate("verify-panic/"+pi.Site, fmt.Sprintf("%s mutant under %s key: %s", m.Class, kn, pi.Msg), wit())
			continue
		}
		if unstable != "" {
			c.Violate("verdict-changes-on-repeat/"+m.Class, unstable, wit())
		}
		if !acc && iters != 0 {
			c.Violate("datalog-before-rejection", fmt.Sprintf("%d Datalog iterations ran before the token was rejected", iters), wit())
		}
		if m.Class == "M13-library-token" && kn == "true-root" && !acc {
			// produced by build / append / seal / reload alone: accepted under the matching root,
			// whatever the reference thinks of the bytes the library made
			c.Violate("library-made-token-rejected", fmt.Sprintf("%s was rejected at %s: %s (reference: chain ok=%v %s)", origin, stage, errText, v.chainOK, v.why), wit())
			continue
		}
		switch {
		case !v.decodable:
			c.Count("undecidable_by_reference", 1)
			if via == "by-id" {
				continue
			}
		case !v.chainOK && acc:
			c.Violate("forged-token-accepted/"+m.Class, fmt.Sprintf("the library accepted a token whose chain is broken (%s) under the %s key", v.why, kn), wit())
		case v.chainOK && !acc:
			if m.MustAccept && (via == "singular" || via == "by-default-key") {
				c.Violate("valid-token-rejected/"+m.Class, fmt.Sprintf("a valid chain (%s) was rejected at %s: %s", m.Class, stage, errText), wit())
			} else if via == "singular" {
				c.Count("reference_accepts_library_rejects:"+stage, 1)
			}
		}
		if v.decodable && !dup {
			c.Count("mutants_decided:"+m.Class, 1)
			if v.chainOK {
				c.Count("accepted_by_reference", 1)
			} else {
				c.Count("rejected_by_reference", 1)
			}
			c.NT(hk + "/" + kn)
		}
	}
}

func c01Family(c *core.C) {
	r := c.R
	f := newFamily(r, c.Seed, fmt.Sprintf("c01-%d", c.Idx), 0)
	var keyID *uint32
	if r.Intn(3) == 0 {
		id := gen.Pick(r, []uint32{0, 7, 0xffffffff})
		keyID = &id
	}
	nBlocks := 0
	mk := func() ast.Block {
		b := f.U.Block(r, gen.BlockOpts{MaxFacts: 3, MaxRules: 1, MaxChecks: 1, Rule: gen.DefaultRuleOpts})
		nBlocks++
		if nBlocks <= 2 {
			// every term kind at its boundary values (dates before 1970 and in the year 9999,
			// 64-bit integers, empty and long byte arrays ...): a token the library built from
			// them is a library-made token like any other and must be accepted
			ek := ast.P(fmt.Sprintf("every_kind_%d", nBlocks))
			for _, k := range gen.ScalarKinds {
				ek.Terms = append(ek.Terms, gen.HardScalar(r, k))
			}
			ek.Terms = append(ek.Terms, gen.SetOf(r, gen.Pick(r, gen.ScalarKinds), 1+r.Intn(3), true))
			b.Facts = append(b.Facts, ek)
			d := ast.Date(gen.Pick(r, gen.BoundDate))
			b.Checks = append(b.Checks, ast.Check{Queries: []ast.Rule{{Head: ast.P("query"), Body: []ast.Pred{ast.P("time", ast.Var("t"))}, Exprs: []ast.Expr{{ast.OV(ast.Var("t")), ast.OV(d), ast.OB(int(ast.BLessOrEqual))}}}}})
		}
		if c.Idx%4 == 1 && nBlocks <= 3 {
			// blocks far larger than any sample token (4 KiB, 16 KiB, 64 KiB boundaries, hundreds of facts):
			// every byte of them, and the key announced after them, is covered by the signature
			if r.Intn(2) == 0 {
				l := gen.Pick(r, []int{4000, 4061, 4100, 5000, 16384, 20000, 65536, 70000})
				b.Facts = append(b.Facts, ast.P("padding", ast.Str(gen.BigString(l, r.Intn(5)))))
			} else {
				gen.BigContent(r, r.Intn(3), false, false).AddTo(&b)
			}
			c.Count("big_blocks", 1)
		}
		return b
	}
	if !f.randomHistory(c, 3+r.Intn(4), keyID, mk) {
		return
	}
	if c.Idx%3 == 0 {
		// deep fork: one parent carrying 3, 5, 6 or 7 attenuation blocks is attenuated twice;
		// both children (and the parent) are library-made tokens and must verify
		p := 0
		for q, l := range f.Tokens {
			if !l.T.Sealed && len(l.T.Blocks) > len(f.Tokens[p].T.Blocks) {
				p = q
			}
		}
		want := []int{3, 5, 6, 7}[c.Idx/3%4]
		for len(f.Tokens[p].T.Blocks)-1 < want {
			if _, err := f.Append(p, mk()); err != nil {
				c.Violate("derivation-refused", err.Error(), nil)
				return
			}
			p = len(f.Tokens) - 1
		}
		for k := 0; k < 2; k++ {
			if _, err := f.Append(p, mk()); err != nil {
				c.Violate("derivation-refused", err.Error(), nil)
				return
			}
		}
		c.Count("deep_fork_families", 1)
	}
	envs := []*wire.Token{}
	for _, l := range f.Tokens {
		ser, _ := l.T.B.Serialize()
		env, err := wire.Decode(ser)
		if err != nil {
			c.Violate("library-token-undecodable", err.Error(), nil)
			return
		}
		envs = append(envs, env)
	}
	// strangers: same content under another root
	spub, spriv := lib.KeyPair(c.Seed, fmt.Sprintf("c01-stranger-%d", c.Idx))
	_ = spub
	st, err := lib.Build(spriv, lib.NewDetRand(c.Seed, fmt.Sprintf("c01-srng-%d", c.Idx)), []ast.Block{mk(), mk()}, keyID)
	strangers := []*wire.Token{}
	if err == nil {
		ser, _ := st.B.Serialize()
		if env, err := wire.Decode(ser); err == nil {
			strangers = append(strangers, env)
		}
	}
	root := f.Tokens[0].T.Pub
	apub, _ := lib.KeyPair(c.Seed, fmt.Sprintf("attacker-m8root-%d", 0))
	rpub, _ := lib.KeyPair(c.Seed, fmt.Sprintf("c01-random-%d", c.Idx))
	keys := map[string]ed25519.PublicKey{"true-root": root, "stranger-root": spub, "random": rpub, "unrelated-attacker": apub}
	seen := map[string]bool{}
	nTok := len(envs)
	pick := []int{nTok - 1, r.Intn(nTok)}
	for _, ti := range pick {
		base := envs[ti]
		others := []*wire.Token{}
		for j, e := range envs {
			if j != ti {
				others = append(others, e)
			}
		}
		ms := chainMutants(r, c.Seed+int64(c.Idx), base, others, strangers)
		// a mutant re-signed by an attacker root is valid under THAT root: present it too
		k2 := map[string]ed25519.PublicKey{}
		for n, k := range keys {
			k2[n] = k
		}
		for _, m := range ms {
			c01Present(c, m, fmt.Sprintf("family token #%d (%s)", ti, f.Tokens[ti].Origin), k2, keyID, seen)
		}
	}
	// accept obligation: every library-made token, and fresh chains written by R3
	for i, l := range f.Tokens {
		ser, _ := l.T.B.Serialize()
		c01Present(c, Mutant{Class: "M13-library-token", Bytes: ser, MustAccept: true}, fmt.Sprintf("family token #%d of history %v", i, f.Ops), map[string]ed25519.PublicKey{"true-root": root}, keyID, seen)
	}
	fresh := freshChain(c.Seed, fmt.Sprintf("c01-%d", c.Idx), f.Tokens[0].T.Priv, []ast.Block{mk(), mk(), mk()}, keyID, r.Intn(2) == 0)
	c01Present(c, Mutant{Class: "M13-fresh-chain-by-reference-writer", Bytes: fresh, MustAccept: true}, "R3 writer", map[string]ed25519.PublicKey{"true-root": root, "random": rpub}, keyID, seen)
	c.Sample(map[string]any{"kind": "family", "ops": f.Ops, "mutated_tokens": pick, "key_id": idText(keyID)})
}

func c01Samples(c *core.C) {
	dir := os.Getenv("VERIF_REPO")
	if dir == "" {
		dir = "/repo"
	}
	raw, err := os.ReadFile(filepath.Join(dir, "samples/data/current/samples.json"))
	if err != nil {
		c.Inconc("samples.json unreadable")
		return
	}
	// root_public_key is a hex string near the top of the file
	s := string(raw)
	i := strings.Index(s, "\"root_public_key\"")
	if i < 0 {
		c.Inconc("no root_public_key in samples.json")
		return
	}
	rest := s[i+len("\"root_public_key\""):]
	q1 := strings.Index(rest, "\"")
	q2 := strings.Index(rest[q1+1:], "\"")
	pub, err := hex.DecodeString(rest[q1+1 : q1+1+q2])
	if err != nil || len(pub) != 32 {
		c.Inconc("root_public_key not hex")
		return
	}
	files, _ := filepath.Glob(filepath.Join(dir, "samples/data/current/*.bc"))
	sort.Strings(files)
	rpub, _ := lib.KeyPair(c.Seed, "c01-sample-random")
	seen := map[string]bool{}
	for _, fn := range files {
		b, err := os.ReadFile(fn)
		if err != nil {
			continue
		}
		keys := map[string]ed25519.PublicKey{"true-root": pub, "random": rpub}
		c01Present(c, Mutant{Class: "sample-file", Bytes: b}, filepath.Base(fn), keys, nil, seen)
		env, err := wire.Decode(b)
		if err != nil || env.NonCanonical || wire.VerifyChain(env, pub) != nil {
			continue
		}
		c.Count("samples_with_valid_chain", 1)
		// the accept obligation holds only for tokens the library regards as well-formed:
		// some samples carry newer schema versions that this library legitimately refuses
		baseOK, _, _, _, _, _ := libAccepts(b, biscuit.WithSingularRootPublicKey(pub))
		for _, m := range chainMutants(c.R, c.Seed, env, nil, nil) {
			if !baseOK {
				m.MustAccept = false
			}
			c01Present(c, m, filepath.Base(fn), keys, nil, seen)
		}
	}
}

// exhaustive single-bit flips of one serialized token
func c01AllBitFlips(c *core.C) {
	r := c.R
	f := newFamily(r, c.Seed, fmt.Sprintf("c01x-%d", c.Idx), 0)
	mk := func() ast.Block {
		return f.U.Block(r, gen.BlockOpts{MaxFacts: 2, MaxRules: 1, MaxChecks: 1, Rule: gen.DefaultRuleOpts})
	}
	if !f.randomHistory(c, 2+r.Intn(3), nil, mk) {
		return
	}
	l := f.Tokens[len(f.Tokens)-1]
	ser, _ := l.T.B.Serialize()
	keys := map[string]ed25519.PublicKey{"true-root": l.T.Pub}
	seen := map[string]bool{}
	for bit := 0; bit < len(ser)*8; bit++ {
		c01Present(c, Mutant{Class: "M12-every-single-bit"}.with(flipBit(ser, bit)), "exhaustive bit flips", keys, nil, seen)
	}
	for n := 0; n < len(ser); n++ {
		c01Present(c, Mutant{Class: "M12-every-prefix"}.with(append([]byte{}, ser[:n]...)), "exhaustive truncation", keys, nil, seen)
	}
	c.Sample(map[string]any{"kind": "exhaustive single-bit flips and prefixes", "token_bytes": len(ser), "ops": f.Ops})
}

func (m Mutant) with(b []byte) Mutant { m.Bytes = b; return m }

func c01Counts(tier string) (fam, flips int) {
	if tier == "thorough" {
		return 16000, 80
	}
	return 150, 2
}

func c01Run(c *core.C) {
	fam, _ := c01Counts(c.Tier)
	switch {
	case c.Idx == 0:
		c01Samples(c)
	case c.Idx <= fam:
		c01Family(c)
	default:
		c01AllBitFlips(c)
	}
}

var c01Classes = []string{"M1-flip-block", "M1-flip-nextkey", "M1-flip-signature", "M1-flip-proof", "M2-swap-nextkeys", "M3-rekey-alone", "M3-rekey-resign-suffix", "M4-swap-blocks", "M4-delete-block", "M4-duplicate-block", "M5-truncate-original-proof", "M5-truncate-attacker-secret", "M5-truncate-attacker-seal", "M6-splice-same-root", "M6-splice-other-root", "M7-proof-kind-swap", "M7-proof-zero-length", "M7-seal-over-block-only", "M7-secret-built-from-announced-key", "M7-seal-built-from-announced-key", "M8-resigned-by-attacker-root", "M9-algorithm", "M10-key-length", "M10-signature-length", "M10-proof-length", "M11-append-with-guessed-key", "M11-append-to-sealed-keep-seal", "M12-raw-bitflip", "M13-reencode", "M13-holder-seals", "M13-holder-appends", "M13-library-token", "M13-fresh-chain-by-reference-writer"}

func init() {
	core.Register(&core.Prop{
		ID:        "C01",
		MinCounts: map[string]int{"deep_fork_families": 40},
		Level:     "fault_enumeration",
		Rule: "case 0: the sample corpus (every .bc file under its published root key and a random key, and the full mutation catalogue on every sample whose chain is valid). cases 1..N: a seeded token family (build + 3-6 append/seal/re-load steps, optional root key id; every third family also grows one chain to 3, 5, 6 or 7 attenuation blocks and attenuates that parent twice - every member of the family, the forked siblings included, must be accepted under the matching root); two members get the whole mutation catalogue M1-M13 of DESIGN appendix C (bit flips in every signed field and the proof, key/signature swaps, re-keying with and without re-signing the suffix, block swap/rotate/delete/duplicate, truncation with original/attacker/sibling proofs, splices from same-root and other-root tokens, proof kind swaps, seal over block bytes only, re-signing by an attacker root, algorithm numbers, key/signature/proof lengths, appending to sealed tokens, raw bit flips and truncations), each mutant presented under 4 keys (true root, stranger root, random, unrelated attacker), half of the time through the key-id map. Last cases: EVERY single-bit flip and EVERY prefix of one serialized token. Each mutant is decided by the independent chain verifier R3; acceptance = AuthorizerFor returned an authorizer; the run.iter hook counter must not move before a rejection. " +
			"Non-trivial = distinct (mutant bytes, key) pairs that R3 decodes canonically.",
		Assumptions: []string{"ed25519 itself is trusted (both sides call crypto/ed25519.Verify)", "a mutant R3 cannot decode canonically carries only the no-panic obligation", "R3 accepting while the library rejects is a violation only for library-made tokens and R3-written spec-conformant chains"},
		NumCases: func(tier string) int {
			fam, flips := c01Counts(tier)
			return 1 + fam + flips
		},
		Run: c01Run,
		Floor: func(a *core.Agg) []string {
			u := []string{}
			for _, cl := range c01Classes {
				if a.Cnt["mutants_decided:"+cl] == 0 {
					u = append(u, "mutation class never decided: "+cl)
				}
			}
			if a.Cnt["accepted_by_reference"] < 100 {
				u = append(u, "fewer than 100 accepted controls")
			}
			if a.Cnt["samples_with_valid_chain"] < 10 {
				u = append(u, "fewer than 10 sample tokens with a valid chain")
			}
			return u
		},
	})
}
