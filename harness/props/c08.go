package props

import (
	"encoding/hex"
	"errors"
	"fmt"

	biscuit "github.com/biscuit-auth/biscuit-go/v2"

	"verif/harness/ast"
	"verif/harness/core"
	"verif/harness/gen"
	"verif/harness/lib"
	"verif/harness/wire"
)

// C08 - tokens and blocks are immutable values; sibling derivations are independent.
// Oracle: model-based monitor over histories. After EVERY operation EVERY live token is
// re-observed and compared with the snapshot taken when it was created, and every built but
// not yet appended block is observed through a throw-away append and compared with its model.

type c08Builder struct {
	parent   int
	bb       biscuit.BlockBuilder
	model    ast.Block
	built    *biscuit.Block
	appended bool
	id       int
	newSyms  int
}

type c08State struct {
	c        *core.C
	f        *Family
	builders []*c08Builder
	ops      []string
	scratch  *lib.DetRand
	sibling  bool // >=2 derivations from one parent each interning >=1 new symbol before either is observed
}

func (s *c08State) log(format string, a ...any) {
	s.ops = append(s.ops, fmt.Sprintf(format, a...))
}

func (s *c08State) wit(extra map[string]any) any {
	m := map[string]any{"history": s.ops}
	for k, v := range extra {
		m[k] = v
	}
	return m
}

// register a freshly created token: check it against its model and snapshot it.
func (s *c08State) register(l *Live) {
	c := s.c
	l.Snap = takeSnapshot(l.T.B, l.T.Pub, s.f.Panel)
	if l.Snap.Err != "" {
		c.Violate("snapshot-error", l.Snap.Err, s.wit(nil))
		return
	}
	if l.Snap.String != l.Snap.Reloaded {
		c.Violate("new-token-differs-from-its-own-bytes", fmt.Sprintf("the token made by %s prints differently in memory and after Unmarshal(Serialize())", l.Origin), s.wit(map[string]any{"in_memory": l.Snap.String, "re_loaded": l.Snap.Reloaded}))
	}
	ser, _ := hex.DecodeString(l.Snap.Ser)
	d, err := wire.DecodeToken(ser)
	if err != nil {
		c.Violate("new-token-undecodable", err.Error(), s.wit(nil))
		return
	}
	if len(d.Blocks) != len(l.T.Blocks) {
		c.Violate("new-token-block-count", "", s.wit(nil))
		return
	}
	if sealedOnWire := d.Env.ProofKind != wire.ProofSecret; sealedOnWire != l.T.Sealed {
		c.Violate("new-token-proof-kind", fmt.Sprintf("the token was made by %s (sealed=%v) but its serialized form carries a %s", l.Origin, l.T.Sealed, map[bool]string{true: "final signature", false: "next secret"}[sealedOnWire]), s.wit(nil))
	}
	for bi, got := range d.Blocks {
		want := l.T.Blocks[bi]
		gf, gr, gc := got.SortedKeys()
		wf, wr, wc := want.SortedKeys()
		if !cmpSorted(gf, wf) || !cmpSorted(gr, wr) || !cmpSorted(gc, wc) || got.Context != want.Context {
			c.Violate("derived-token-content-differs-from-its-caller",
				fmt.Sprintf("block %d of the new token holds %v %v %v, its caller supplied %v %v %v", bi, gf, gr, gc, wf, wr, wc),
				s.wit(map[string]any{"block": bi}))
		}
	}
}

// reobserve every live token and every built, unappended block.
func (s *c08State) reobserve(op string) {
	c := s.c
	for i, l := range s.f.Tokens {
		if l.Snap.Ser == "" {
			continue
		}
		c.Eval(1)
		now := takeSnapshot(l.T.B, l.T.Pub, s.f.Panel)
		if df := diffSnapshot(l.Snap, now); df != "" {
			c.Violate("token-changed/"+df, fmt.Sprintf("token #%d changed in %s after %s", i, df, op), s.wit(map[string]any{"token": i, "at_creation": l.Snap, "now": now}))
			l.Snap = now // report each change once
		}
	}
	for _, b := range s.builders {
		if b.built == nil || b.appended {
			continue
		}
		c.Eval(1)
		p := s.f.Tokens[b.parent]
		var nb *biscuit.Biscuit
		var err error
		pi := lib.Try(func() { nb, err = p.T.B.Append(s.scratch, b.built) })
		if pi != nil {
			c.Violate("append-panic/"+pi.Site, pi.Msg, s.wit(nil))
			continue
		}
		if err != nil {
			c.Violate("built-block-no-longer-appendable", fmt.Sprintf("block of builder %d cannot be appended to its parent after %s: %v", b.id, op, err), s.wit(nil))
			continue
		}
		ser, _ := nb.Serialize()
		d, err := wire.DecodeToken(ser)
		if err != nil {
			c.Violate("built-block-undecodable", err.Error(), s.wit(nil))
			continue
		}
		got := d.Blocks[len(d.Blocks)-1]
		gf, gr, gc := got.SortedKeys()
		wf, wr, wc := b.model.SortedKeys()
		if !cmpSorted(gf, wf) || !cmpSorted(gr, wr) || !cmpSorted(gc, wc) {
			c.Violate("built-block-content-changed", fmt.Sprintf("built block of builder %d now holds %v %v %v, its caller supplied %v %v %v (after %s)", b.id, gf, gr, gc, wf, wr, wc, op), s.wit(nil))
			b.appended = true
		}
	}
}

var c08FreshNames = []string{"foo", "bar", "baz", "qux", "alpha", "beta", "gamma", "delta", "n1", "n2", "n3", "n4", "zz_top", "File1", "READ"}

func (s *c08State) freshContent(bid int) ast.Block {
	r := s.c.R
	name := gen.Pick(r, c08FreshNames)
	val := gen.Pick(r, c08FreshNames)
	b := ast.Block{}
	switch r.Intn(4) {
	case 0:
		b.Facts = append(b.Facts, ast.P(name, ast.Str(val)))
	case 1:
		b.Checks = append(b.Checks, ast.Check{Queries: []ast.Rule{{Head: ast.P("query"), Body: []ast.Pred{ast.P(name, ast.Int(int64(bid)))}}}})
	case 2:
		b.Rules = append(b.Rules, ast.Rule{Head: ast.P(name, ast.Var(val)), Body: []ast.Pred{ast.P("resource", ast.Var(val))}})
	default:
		b.Facts = append(b.Facts, s.f.U.Fact(r))
	}
	return b
}

// c08ChainFork is the second history template: a chain of attenuations of depth 1..9 (slices
// that grow by doubling have spare capacity at 3, 5, 6, 7, 9 elements) with 2-3 siblings forked
// from the tip at several depths, some tips re-loaded or sealed; every live token is re-observed
// after every operation, as in the random template.
func c08ChainFork(s *c08State, mk func() ast.Block) {
	c, r, f := s.c, s.c.R, s.f
	depth := 2 + r.Intn(8)
	tip := 0
	forks := 0
	for d := 1; d <= depth; d++ {
		l, err := f.Append(tip, mk())
		if err != nil {
			c.Violate("append-refused", err.Error(), s.wit(nil))
			return
		}
		tip = len(f.Tokens) - 1
		op := fmt.Sprintf("append(#%d) -> #%d [chain depth %d]", f.Tokens[tip].T.B.BlockCount()-1, tip, d)
		s.log(op)
		s.register(l)
		s.reobserve(op)
		if r.Intn(5) == 0 {
			// continue the chain from a re-loaded copy of the tip
			if rl, err := f.Reload(tip); err == nil {
				tip = len(f.Tokens) - 1
				op = fmt.Sprintf("unmarshal(serialize(#%d)) -> #%d", tip-1, tip)
				s.log(op)
				s.register(rl)
				s.reobserve(op)
			}
		}
		if d >= 2 && (r.Intn(3) == 0 || d == depth) && len(f.Tokens) < 22 {
			// fork: several siblings from the same tip, each with its own content
			n := 2 + r.Intn(2)
			for k := 0; k < n; k++ {
				var sl *Live
				var err error
				kind := "append"
				if k == n-1 && r.Intn(3) == 0 {
					kind = "seal"
					sl, err = f.Seal(tip)
				} else {
					blk := s.freshContent(100*d + k)
					sl, err = f.Append(tip, blk)
				}
				if err != nil {
					c.Violate("sibling-refused", err.Error(), s.wit(nil))
					return
				}
				op = fmt.Sprintf("%s(#%d) -> #%d [sibling %d of %d at depth %d]", kind, tip, len(f.Tokens)-1, k+1, n, d)
				s.log(op)
				s.register(sl)
				s.reobserve(op)
			}
			forks++
			// a lookup that misses on a known predicate with never-seen strings, then one more
			// derivation from the tip: nothing may have been interned into the tip's table
			tipTok := f.Tokens[tip]
			if len(tipTok.T.Blocks[0].Facts) > 0 {
				known := tipTok.T.Blocks[0].Facts[0]
				miss := ast.Pred{Name: known.Name, Terms: make([]ast.Term, len(known.Terms))}
				for j := range miss.Terms {
					miss.Terms[j] = ast.Str(fmt.Sprintf("lookup_only_%d_%d", d, j))
				}
				lib.Try(func() { tipTok.T.B.GetBlockID(miss.LibFact()) })
				op = fmt.Sprintf("get-block-id(#%d, %s) [miss]", tip, miss.Key())
				s.log(op)
				s.reobserve(op)
			}
		}
	}
	if forks > 0 {
		c.NT("chain-fork/" + core.JSON(s.ops))
		c.Count("chain_fork_histories", 1)
		c.Count(fmt.Sprintf("chain_fork_depth_%d", depth), 1)
	}
	c.Count("tokens_live", len(f.Tokens))
	c.Sample(map[string]any{"kind": "chain-and-fork history", "ops": s.ops, "live_tokens": len(f.Tokens), "depth": depth, "forks": forks})
}

func cloneBlock(b ast.Block) ast.Block {
	return ast.Block{Facts: append([]ast.Pred{}, b.Facts...), Rules: append([]ast.Rule{}, b.Rules...), Checks: append([]ast.Check{}, b.Checks...), Context: b.Context}
}

func mergeBlock(m *ast.Block, acc ast.Block) {
	m.Facts = append(m.Facts, acc.Facts...)
	m.Rules = append(m.Rules, acc.Rules...)
	m.Checks = append(m.Checks, acc.Checks...)
}

// pickModel decides which of the two legitimate semantics of a re-used builder a library follows:
// a second Build returns everything put in so far (cum) or what was put in since the previous
// Build (since, a builder that starts over). The block is decoded independently; the model that
// matches is returned (cum when neither does, so that the mismatch is reported against it).
func (s *c08State) pickModel(b *biscuit.Biscuit, cum, since ast.Block) ast.Block {
	ser, err := b.Serialize()
	if err != nil {
		return cum
	}
	d, err := wire.DecodeToken(ser)
	if err != nil || len(d.Blocks) == 0 {
		return cum
	}
	got := d.Blocks[len(d.Blocks)-1]
	gf, gr, gc := got.SortedKeys()
	same := func(m ast.Block) bool {
		wf, wr, wc := m.SortedKeys()
		return cmpSorted(gf, wf) && cmpSorted(gr, wr) && cmpSorted(gc, wc)
	}
	if !same(cum) && same(since) {
		s.c.Count("builder_starts_over_after_build", 1)
		return since
	}
	return cum
}

// c08BuilderReuse is the third history template: builders keep being used after Build.
// (1) a root Builder: fill, Build -> T1, fill more, Build -> T2, ...: every token holds exactly
// what had been put into the builder when it was built, and filling the builder afterwards
// changes no token already issued. (2) a block builder on a live token: fill, Build -> B1, fill
// more, Build -> B2, ...: every built block holds what had been put in when it was built (observed
// through throw-away appends after every operation), then every block is appended to the parent.
// A builder may refuse to be built again with an error; it may not panic or hand out other content.
func c08BuilderReuse(s *c08State, mk func() ast.Block) {
	c, f, r := s.c, s.f, s.c.R
	root := f.Tokens[0]
	bld := biscuit.NewBuilder(root.T.Priv, biscuit.WithRNG(f.rng))
	var m, since ast.Block
	for k, n := 0, 2+r.Intn(2); k < n; k++ {
		content := mk()
		content.Context = "" // this template enters facts, rules and checks only (FillAuthority sets no context)
		if k > 0 {
			content = s.freshContent(100 + k)
			if r.Intn(4) == 0 {
				content = ast.Block{}
			}
		}
		var acc ast.Block
		var err error
		if pi := lib.Try(func() { acc, err = lib.FillAuthority(bld, content) }); pi != nil {
			c.Violate("add-panic/"+pi.Site, pi.Msg, s.wit(nil))
			return
		}
		if err != nil && !errors.Is(err, biscuit.ErrDuplicateFact) {
			c.Violate("add-refused", err.Error(), s.wit(nil))
		}
		mergeBlock(&m, acc)
		mergeBlock(&since, acc)
		op := fmt.Sprintf("add(root builder, %s)", content.Key())
		s.log(op)
		s.reobserve(op)
		var b *biscuit.Biscuit
		if pi := lib.Try(func() { b, err = bld.Build() }); pi != nil {
			c.Violate("build-panic/"+pi.Site, fmt.Sprintf("Build number %d on one root builder: %s", k+1, pi.Msg), s.wit(nil))
			return
		}
		if err != nil {
			c.Count("root_builder_rebuild_refused", 1)
			s.log(fmt.Sprintf("build number %d on the root builder refused: %v", k+1, err))
			break
		}
		l := &Live{T: &lib.Token{B: b, Blocks: []ast.Block{s.pickModel(b, cloneBlock(m), cloneBlock(since))}, Pub: root.T.Pub, Priv: root.T.Priv}, Origin: "build"}
		since = ast.Block{}
		f.Tokens = append(f.Tokens, l)
		op = fmt.Sprintf("build number %d on the root builder -> #%d", k+1, len(f.Tokens)-1)
		s.log(op)
		s.register(l)
		s.reobserve("after " + op)
		c.Count("root_builder_builds", 1)
	}
	// block builder re-used; the parent has custom symbols half of the time
	ti := 0
	if r.Intn(2) == 0 {
		if _, err := f.Append(0, mk()); err == nil {
			ti = len(f.Tokens) - 1
			s.log(fmt.Sprintf("append(#0) -> #%d", ti))
			s.register(f.Tokens[ti])
		}
	}
	var bb biscuit.BlockBuilder
	if pi := lib.Try(func() { bb = f.Tokens[ti].T.B.CreateBlock() }); pi != nil {
		c.Violate("createblock-panic/"+pi.Site, pi.Msg, s.wit(nil))
		return
	}
	var bm, bsince ast.Block
	built := []*c08Builder{}
	for k, n := 0, 2+r.Intn(2); k < n; k++ {
		content := s.freshContent(200 + k)
		if k > 0 && r.Intn(4) == 0 {
			content = ast.Block{}
		}
		var acc ast.Block
		var err error
		if k > 0 && len(bm.Facts) > 0 && r.Intn(2) == 0 {
			// through AddBlock, with a fact in the call that the builder refuses as a duplicate of
			// one it already holds: what was accepted before the refusal stays, nothing else changes
			fresh := ast.P(fmt.Sprintf("via_addblock_%d", k), ast.Str(fmt.Sprintf("fresh_value_%d", k)))
			pb := biscuit.ParsedBlock{Facts: []biscuit.Fact{fresh.LibFact(), bm.Facts[0].LibFact(), ast.P("never_reached", ast.Int(1)).LibFact()}}
			if pi := lib.Try(func() { err = bb.AddBlock(pb) }); pi != nil {
				c.Violate("add-panic/"+pi.Site, pi.Msg, s.wit(nil))
				return
			}
			acc = ast.Block{Facts: []ast.Pred{fresh}}
			content = acc
			c.Count("addblock_with_refused_duplicate_after_build", 1)
		} else if pi := lib.Try(func() { acc, err = lib.FillBlock(bb, content) }); pi != nil {
			c.Violate("add-panic/"+pi.Site, pi.Msg, s.wit(nil))
			return
		}
		if err != nil && !errors.Is(err, biscuit.ErrDuplicateFact) {
			c.Violate("add-refused", err.Error(), s.wit(nil))
		}
		mergeBlock(&bm, acc)
		mergeBlock(&bsince, acc)
		op := fmt.Sprintf("add(block builder on #%d, %s)", ti, content.Key())
		s.log(op)
		s.reobserve(op)
		var blk *biscuit.Block
		if pi := lib.Try(func() { blk = bb.Build() }); pi != nil {
			c.Violate("buildblock-panic/"+pi.Site, fmt.Sprintf("Build number %d on one block builder: %s", k+1, pi.Msg), s.wit(nil))
			return
		}
		model := cloneBlock(bm)
		if tb, err := f.Tokens[ti].T.B.Append(s.scratch, blk); err == nil {
			model = s.pickModel(tb, model, cloneBlock(bsince))
		}
		bsince = ast.Block{}
		nb := &c08Builder{parent: ti, model: model, built: blk, id: len(s.builders)}
		s.builders = append(s.builders, nb)
		built = append(built, nb)
		op = fmt.Sprintf("build-block number %d on the block builder -> built block %d", k+1, nb.id)
		s.log(op)
		s.reobserve(op)
		c.Count("block_builder_builds", 1)
	}
	for _, nb := range built {
		if nb.appended {
			continue
		}
		p := f.Tokens[ti]
		var tb *biscuit.Biscuit
		var err error
		if pi := lib.Try(func() { tb, err = p.T.B.Append(f.rng, nb.built) }); pi != nil {
			c.Violate("append-panic/"+pi.Site, pi.Msg, s.wit(nil))
			return
		}
		nb.appended = true
		if err != nil {
			c.Violate("append-refused", fmt.Sprintf("appending built block %d to its own parent failed: %v", nb.id, err), s.wit(nil))
			continue
		}
		l := &Live{T: &lib.Token{B: tb, Blocks: append(append([]ast.Block{}, p.T.Blocks...), nb.model), Pub: p.T.Pub, Priv: p.T.Priv}, Origin: "append"}
		f.Tokens = append(f.Tokens, l)
		op := fmt.Sprintf("append(#%d, built block %d) -> #%d", ti, nb.id, len(f.Tokens)-1)
		s.log(op)
		s.register(l)
		s.reobserve("after " + op)
	}
	c.Count("builder_reuse_histories", 1)
	c.Count("tokens_live", len(f.Tokens))
	c.NT("reuse/" + core.JSON(s.ops))
	c.Sample(map[string]any{"kind": "builder re-use history", "ops": s.ops, "live_tokens": len(f.Tokens)})
}

func c08Run(c *core.C) {
	r := c.R
	f := newFamily(r, c.Seed, fmt.Sprintf("c08-%d", c.Idx), 2)
	s := &c08State{c: c, f: f, scratch: lib.NewDetRand(c.Seed, fmt.Sprintf("c08-scratch-%d", c.Idx))}
	mk := func() ast.Block {
		o := gen.BlockOpts{MaxFacts: 3, MaxRules: 1, MaxChecks: 1, Rule: gen.RuleOpts{PConst: 0.35, PExpr: 0.3, MaxBody: 2}, Context: true}
		b := f.U.Block(r, o)
		// strings that are not UTF-8, control bytes, long strings: a block holds the caller's bytes, not a cleaned-up version
		if r.Intn(3) == 0 {
			b.Facts = append(b.Facts, ast.P("odd_text", gen.HardScalar(r, ast.KStr), ast.Str(gen.BigString(gen.Pick(r, []int{2, 3, 127, 128, 300}), r.Intn(5)))))
		}
		if r.Intn(8) == 0 {
			gen.BigContent(r, r.Intn(gen.NumBigShapes), false, r.Intn(3) == 0).AddTo(&b)
		}
		return b
	}
	root, err := f.Root(r, c.Seed, fmt.Sprintf("c08-%d", c.Idx), mk(), nil)
	if err != nil {
		c.Violate("build-refused", err.Error(), nil)
		return
	}
	s.log("build -> #0")
	s.register(root)
	if c.Idx%2 == 1 {
		c08ChainFork(s, mk)
		return
	}
	if c.Idx%4 == 2 {
		c08BuilderReuse(s, mk)
		// a derived token holds what its parent held plus what its own caller put in, also when
		// the parent came from hostile bytes (dangling symbol index; shared with C02)
		ds := gen.NewScenario(r, 2, scenOpts)
		countBig(c, ds)
		if dt, err := buildScenarioToken(c.Seed, fmt.Sprintf("c08-dang-%d", c.Idx), ds.Blocks); err == nil {
			c02Dangling(c, dt, ds.Auth)
		}
		return
	}
	nOps := 20 + r.Intn(25)
	if !c.Thorough() {
		nOps = 14 + r.Intn(14)
	}
	newSymOpen := map[int]int{} // parent -> builders with >=1 new symbol not yet observed
	for step := 0; step < nOps; step++ {
		op := ""
		ti := r.Intn(len(f.Tokens))
		tok := f.Tokens[ti]
		switch k := r.Intn(20); {
		case k < 5: // create-block (biased: reuse a parent that already has an open builder)
			if tok.T.Sealed || len(f.Tokens) >= 10 {
				continue
			}
			for _, b := range s.builders {
				if b.built == nil && r.Intn(2) == 0 && !f.Tokens[b.parent].T.Sealed {
					ti, tok = b.parent, f.Tokens[b.parent]
					break
				}
			}
			var bb biscuit.BlockBuilder
			pi := lib.Try(func() { bb = tok.T.B.CreateBlock() })
			if pi != nil {
				c.Violate("createblock-panic/"+pi.Site, pi.Msg, s.wit(nil))
				return
			}
			b := &c08Builder{parent: ti, bb: bb, id: len(s.builders)}
			s.builders = append(s.builders, b)
			op = fmt.Sprintf("create-block(#%d) -> builder %d", ti, b.id)
		case k < 11: // add-to-builder
			open := []*c08Builder{}
			for _, b := range s.builders {
				if b.built == nil {
					open = append(open, b)
				}
			}
			if len(open) == 0 {
				continue
			}
			b := gen.Pick(r, open)
			content := s.freshContent(b.id)
			var acc ast.Block
			var err error
			pi := lib.Try(func() { acc, err = lib.FillBlock(b.bb, content) })
			if pi != nil {
				c.Violate("add-panic/"+pi.Site, pi.Msg, s.wit(nil))
				return
			}
			if err != nil && !errors.Is(err, biscuit.ErrDuplicateFact) {
				c.Violate("add-refused", err.Error(), s.wit(nil))
			}
			b.model.Facts = append(b.model.Facts, acc.Facts...)
			b.model.Rules = append(b.model.Rules, acc.Rules...)
			b.model.Checks = append(b.model.Checks, acc.Checks...)
			if b.newSyms == 0 {
				newSymOpen[b.parent]++
				if newSymOpen[b.parent] >= 2 {
					s.sibling = true
				}
			}
			b.newSyms++
			op = fmt.Sprintf("add(builder %d, %s)", b.id, content.Key())
		case k < 14: // build-block (biased: the most recently created open builder first = opposite order)
			var pick *c08Builder
			for i := len(s.builders) - 1; i >= 0; i-- {
				if s.builders[i].built == nil {
					pick = s.builders[i]
					if r.Intn(3) != 0 {
						break
					}
				}
			}
			if pick == nil {
				continue
			}
			pi := lib.Try(func() { pick.built = pick.bb.Build() })
			if pi != nil {
				c.Violate("buildblock-panic/"+pi.Site, pi.Msg, s.wit(nil))
				return
			}
			// de-duplicate the model the way the builder does (duplicate facts are refused)
			op = fmt.Sprintf("build-block(builder %d)", pick.id)
		case k < 16: // append a built block to its parent
			var pick *c08Builder
			for _, b := range s.builders {
				if b.built != nil && !b.appended && !f.Tokens[b.parent].T.Sealed {
					pick = b
					if r.Intn(2) == 0 {
						break
					}
				}
			}
			if pick == nil || len(f.Tokens) >= 10 {
				continue
			}
			p := f.Tokens[pick.parent]
			var nb *biscuit.Biscuit
			var err error
			pi := lib.Try(func() { nb, err = p.T.B.Append(f.rng, pick.built) })
			if pi != nil {
				c.Violate("append-panic/"+pi.Site, pi.Msg, s.wit(nil))
				return
			}
			if err != nil {
				c.Violate("append-refused", fmt.Sprintf("appending the block of builder %d to its own parent failed: %v", pick.id, err), s.wit(nil))
				pick.appended = true
				continue
			}
			pick.appended = true
			nt := &lib.Token{B: nb, Blocks: append(append([]ast.Block{}, p.T.Blocks...), pick.model), Pub: p.T.Pub, Priv: p.T.Priv}
			l := &Live{T: nt, Origin: "append"}
			f.Tokens = append(f.Tokens, l)
			op = fmt.Sprintf("append(#%d, builder %d) -> #%d", pick.parent, pick.id, len(f.Tokens)-1)
			s.log(op)
			s.register(l)
			op = "after " + op
		case k < 17: // seal
			if tok.T.Sealed || len(f.Tokens) >= 10 {
				continue
			}
			l, err := f.Seal(ti)
			if err != nil {
				c.Violate("seal-refused", err.Error(), s.wit(nil))
				continue
			}
			op = fmt.Sprintf("seal(#%d) -> #%d", ti, len(f.Tokens)-1)
			s.log(op)
			s.register(l)
		case k < 18: // serialize + unmarshal
			if len(f.Tokens) >= 10 {
				continue
			}
			l, err := f.Reload(ti)
			if err != nil {
				c.Violate("reload-refused", err.Error(), s.wit(nil))
				continue
			}
			op = fmt.Sprintf("unmarshal(serialize(#%d)) -> #%d", ti, len(f.Tokens)-1)
			s.log(op)
			s.register(l)
		case k < 19: // get-block-id with unknown symbols
			pi := lib.Try(func() {
				tok.T.B.GetBlockID(ast.P(gen.Pick(r, c08FreshNames)+"_lookup", ast.Str(gen.Pick(r, c08FreshNames)+"_v")).LibFact())
				if len(tok.T.Blocks[0].Facts) > 0 {
					known := tok.T.Blocks[0].Facts[0]
					tok.T.B.GetBlockID(known.LibFact())
					// a miss on a KNOWN predicate name with strings the token has never seen
					// (also nested in a set): the lookup must not intern them into the token
					miss := ast.Pred{Name: known.Name, Terms: make([]ast.Term, len(known.Terms))}
					for j := range miss.Terms {
						miss.Terms[j] = ast.Str(fmt.Sprintf("never_seen_%d_%s", j, gen.Pick(r, c08FreshNames)))
					}
					tok.T.B.GetBlockID(miss.LibFact())
					tok.T.B.GetBlockID(ast.P(known.Name, ast.SetOf(ast.Str("unseen_in_set_"+gen.Pick(r, c08FreshNames)))).LibFact())
				}
			})
			if pi != nil {
				c.Violate("getblockid-panic/"+pi.Site, pi.Msg, s.wit(nil))
			}
			op = fmt.Sprintf("get-block-id(#%d)", ti)
		default: // authorize + print + code + checks
			lib.Try(func() {
				_ = tok.T.B.String()
				_ = tok.T.B.Code()
				_ = tok.T.B.Checks()
				_ = tok.T.B.GetContext()
			})
			if f.Panel != nil {
				lib.Observe(tok.T.B, tok.T.Pub, gen.Pick(r, f.Panel.Auths), f.Panel.Probes)
			}
			op = fmt.Sprintf("authorize+print(#%d)", ti)
		}
		if op == "" {
			continue
		}
		if len(s.ops) == 0 || s.ops[len(s.ops)-1] != op {
			s.log(op)
		}
		s.reobserve(op)
	}
	if s.sibling {
		c.NT("history/" + core.JSON(s.ops))
		c.Count("histories_with_sibling_builders", 1)
	}
	c.Count("tokens_live", len(f.Tokens))
	c.Count("builders", len(s.builders))
	c.Sample(map[string]any{"kind": "history", "ops": s.ops, "live_tokens": len(f.Tokens), "sibling_builders": s.sibling})
}

func init() {
	core.Register(&core.Prop{
		ID:    "C08",
		Level: "exploration",
		Rule: "three history templates. Cases = 2 mod 4: builder re-use - a root Builder is filled, built, filled further (fresh symbols) and built again 2-3 times, and a block builder on a live token (with and without custom symbols) likewise; every token / block must hold exactly what had been put into its builder at the time of its Build, nothing added later may reach a token or block already built, and Build may refuse with an error but not panic (a builder that starts over after Build - second result = what was added since - is accepted as well and counted). Odd cases: chain-and-fork - a chain of attenuations of depth 2-9 from one root (tips occasionally re-loaded), with 2-3 siblings (appends with fresh symbols, sometimes a seal) forked from the same tip at several depths, so that parents whose internal slices have spare capacity (3, 5, 6, 7, 9 blocks) are forked. Cases = 0 mod 4: one seeded history of 14-45 operations over a growing family (<=10 live tokens) drawn from {create-block, add-to-builder, build-block, append, seal, serialize+unmarshal, get-block-id with unknown symbols, authorize+print}, biased to the dangerous shape (several builders open on one parent at once, interleaved adds that intern different new symbols, building in the opposite order to creation, siblings appended from one parent). After EVERY operation EVERY live token is re-observed (String, Code, Serialize, Unmarshal(Serialize).String, RevocationIds, key id, panel behaviour) and compared with its creation snapshot; every new token is decoded by R3 and compared with what its own caller put in; every built-but-unappended block is observed through a throw-away append. " +
			"Non-trivial = histories with >=2 builders on one parent that each interned content before either was observed (distinct by operation list).",
		Assumptions: []string{"a built block is appended only to the token its builder was created from"},
		NumCases: func(tier string) int {
			if tier == "thorough" {
				return 50000
			}
			return 640
		},
		Run: c08Run,
		Floor: func(a *core.Agg) []string {
			u := []string{}
			if a.Cnt["chain_fork_histories"] < 150 {
				u = append(u, fmt.Sprintf("chain-and-fork histories %d < 150", a.Cnt["chain_fork_histories"]))
			}
			for d := 3; d <= 9; d++ {
				if a.Cnt[fmt.Sprintf("chain_fork_depth_%d", d)] == 0 {
					u = append(u, fmt.Sprintf("no chain-and-fork history of depth %d", d))
				}
			}
			if a.Cnt["builder_reuse_histories"] < 100 || a.Cnt["root_builder_builds"] < 200 || a.Cnt["block_builder_builds"] < 200 {
				u = append(u, fmt.Sprintf("builder re-use histories %d (<100), root builds %d, block builds %d (<200)", a.Cnt["builder_reuse_histories"], a.Cnt["root_builder_builds"], a.Cnt["block_builder_builds"]))
			}
			if a.Cnt["histories_with_sibling_builders"] < 60 {
				u = append(u, fmt.Sprintf("histories with sibling builders %d < 60", a.Cnt["histories_with_sibling_builders"]))
			}
			return u
		},
	})
}
