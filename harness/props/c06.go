package props

import (
	"fmt"
	"math"
	"math/rand"

	"github.com/biscuit-auth/biscuit-go/v2/datalog"

	"verif/harness/ast"
	"verif/harness/core"
	"verif/harness/dl"
	"verif/harness/gen"
	"verif/harness/lib"
	"verif/harness/ref"
)

// C06 - expressions are total, typed and arithmetically exact.
// Oracle: R2 (ref.EvalExpr), strict / lenient zones per DESIGN appendix A.

var c06Pool = func() []ast.Term {
	p := []ast.Term{}
	for _, i := range []int64{math.MinInt64, math.MinInt64 + 1, -1, 0, 1, 2, 3, 1 << 31, math.MaxInt64 - 1, math.MaxInt64} {
		p = append(p, ast.Int(i))
	}
	for _, s := range []string{"", "a", "ab", "abc", "é", "(", "a.c", "read"} {
		p = append(p, ast.Str(s))
	}
	for _, d := range []uint64{0, 1, 1 << 31, 1 << 63, math.MaxUint64} {
		p = append(p, ast.Date(d))
	}
	for _, b := range [][]byte{{}, {0}, {0x41}, {0x41, 0x42}} {
		p = append(p, ast.Bytes(b))
	}
	p = append(p, ast.Bool(true), ast.Bool(false))
	p = append(p,
		ast.SetOf(ast.Int(1)), ast.SetOf(ast.Int(1), ast.Int(2)), ast.SetOf(ast.Int(2), ast.Int(1)), ast.SetOf(ast.Int(1), ast.Int(2), ast.Int(3)),
		ast.SetOf(ast.Str("a")), ast.SetOf(ast.Str("a"), ast.Str("b")), ast.SetOf(ast.Str("é"), ast.Str("read")),
		ast.SetOf(ast.Date(0)), ast.SetOf(ast.Date(0), ast.Date(1<<63)),
		ast.SetOf(ast.Bytes([]byte{})), ast.SetOf(ast.Bytes([]byte{0x41}), ast.Bytes([]byte{0x41, 0x42})), ast.SetOf(ast.Bytes([]byte{0x41})),
		ast.SetOf(ast.Bool(true)), ast.SetOf(ast.Bool(true), ast.Bool(false)),
		ast.SetOf(ast.Int(1), ast.Int(1)), // duplicates: lenient zone
	)
	// larger sets of every kind (implementations switch algorithms by size)
	for _, n := range []int{9, 17} {
		bi, bs, by, bd := ast.Term{K: ast.KSet}, ast.Term{K: ast.KSet}, ast.Term{K: ast.KSet}, ast.Term{K: ast.KSet}
		for i := 0; i < n; i++ {
			bi.Set = append(bi.Set, ast.Int(int64(i)))
			bs.Set = append(bs.Set, ast.Str(fmt.Sprintf("s%d", i)))
			by.Set = append(by.Set, ast.Bytes([]byte{byte(i), 0x41}))
			bd.Set = append(bd.Set, ast.Date(uint64(i)))
		}
		p = append(p, bi, bs, by, bd)
	}
	return p
}()

var c06Grid = func() []int64 {
	g := []int64{}
	for _, b := range []int64{math.MinInt64, math.MaxInt64, 0, 1 << 31, -1 << 31, 1 << 32, 3037000499, 3037000500, -3037000500} {
		for d := int64(-1); d <= 1; d++ {
			v := b + d
			if (d > 0 && v < b) || (d < 0 && v > b) {
				continue
			}
			g = append(g, v)
		}
	}
	g = append(g, 2, -2, 7, -7, 1<<62, -1<<62)
	return g
}()

func kindTag(t ast.Term) string {
	if t.K == ast.KSet {
		ek, _ := t.ElemKind()
		tag := "set<" + ek.String() + ">"
		if t.HasDup() {
			tag += "dup"
		}
		return tag
	}
	return t.K.String()
}

// libEval evaluates e with the library's evaluator.
type exprObs struct {
	Panic *lib.PanicInfo
	Err   string
	Val   *ast.Term
	Back  string // conversion problem
	Mut   string // the evaluation changed its own operands / a second evaluation answered differently
}

func libEval(e ast.Expr, env map[string]ast.Term) exprObs {
	var o exprObs
	s := dl.NewSyms()
	o.Panic = lib.Try(func() {
		de := s.Expr(e)
		vals := map[datalog.Variable]*datalog.Term{}
		for k, v := range env {
			id := datalog.Variable(s.T.Insert(k))
			t := s.Term(v)
			vals[id] = &t
		}
		show := func() string {
			flat := map[datalog.Variable]datalog.Term{}
			for k, v := range vals {
				flat[k] = *v
			}
			return fmt.Sprintf("%v | %v", de, flat)
		}
		before := show()
		res, err := de.Evaluate(vals, s.T)
		// an evaluation reads its operands: the expression and the bindings must be what they
		// were, and evaluating the same expression again must give the same answer
		if after := show(); after != before {
			o.Mut = fmt.Sprintf("operands changed by the evaluation: before %s, after %s", core.Head(before, 300), core.Head(after, 300))
		} else {
			res2, err2 := de.Evaluate(vals, s.T)
			if (err == nil) != (err2 == nil) || (err == nil && fmt.Sprintf("%v", res) != fmt.Sprintf("%v", res2)) {
				o.Mut = fmt.Sprintf("second evaluation of the same expression: first (%v, %v), second (%v, %v)", res, err, res2, err2)
			}
		}
		if err != nil {
			o.Err = err.Error()
			return
		}
		v, berr := s.Back(res)
		if berr != nil {
			o.Back = berr.Error()
			return
		}
		o.Val = &v
	})
	return o
}

var c06HalfWay = []ast.Expr{
	{ast.OV(ast.Int(1)), ast.OV(ast.Int(1000)), ast.OV(ast.Int(0)), ast.OB(ast.BDiv), ast.OB(ast.BLessThan)},
	{ast.OV(ast.Int(40)), ast.OV(ast.Int(2)), ast.OU(ast.UNegate), ast.OB(ast.BAdd)},
	{ast.OV(ast.Int(7)), ast.OV(ast.Var("unbound")), ast.OB(ast.BAdd)},
	{ast.OV(ast.Int(1)), ast.OV(ast.Bool(true))},
}

// c06Compare applies the oracle to one evaluation; cell is the stable description of the
// operator and operand kinds (or sequence class) used in violation keys.
func c06Compare(c *core.C, cell string, e ast.Expr, env map[string]ast.Term) string {
	c.Eval(1)
	want := ref.EvalExpr(e, env)
	if len(e)%3 == 1 {
		// an evaluation that fails half-way, operands still waiting (1 < 1000 / 0;  40 + !2),
		// comes first: what it leaves behind must not reach the evaluation that is judged
		libEval(c06HalfWay[len(e)/3%len(c06HalfWay)], nil)
	}
	got := libEval(e, env)
	wit := func() any {
		return map[string]any{"expr": e.Key(), "env": core.JSON(env), "reference": resText(want), "library": obsText(got)}
	}
	outcome := "value"
	switch {
	case got.Panic != nil:
		c.Violate("expr-panic/"+got.Panic.Site+"/"+cell, fmt.Sprintf("expression evaluation panicked: %s on %s", got.Panic.Msg, e.Key()), wit())
		return "panic"
	case got.Mut != "":
		c.Violate("expr-mutates-operands/"+cell, got.Mut+" on "+e.Key(), wit())
		return "mutated"
	case got.Back != "":
		c.Violate("expr-bad-result/"+cell, "result term cannot be resolved: "+got.Back, wit())
		return "bad"
	}
	if got.Err != "" {
		outcome = "error"
	}
	switch {
	case want.Lenient:
		c.Count("lenient_zone", 1)
		if want.NoTrue && got.Val != nil && got.Val.K == ast.KBool && got.Val.Bo {
			c.Violate("expr-true-across-kinds/"+cell, "membership/inclusion across different kinds answered true: "+e.Key(), wit())
		}
		return "lenient-" + outcome
	case want.Err:
		if got.Err == "" {
			c.Violate("expr-value-where-error/"+cell, fmt.Sprintf("%s: reference says error (%s), library returned %s", e.Key(), want.Why, got.Val.Key()), wit())
		}
	default:
		if got.Err != "" {
			c.Violate("expr-error-where-value/"+cell, fmt.Sprintf("%s: reference value %s, library error %q", e.Key(), want.V.Key(), got.Err), wit())
		} else if got.Val.Key() != want.V.Key() {
			c.Violate("expr-wrong-value/"+cell, fmt.Sprintf("%s: reference value %s, library value %s", e.Key(), want.V.Key(), got.Val.Key()), wit())
		}
	}
	return outcome
}

func resText(r ref.Res) string {
	switch {
	case r.Lenient:
		return "lenient: " + r.Why
	case r.Err:
		return "error: " + r.Why
	}
	return "value " + r.V.Key()
}

func obsText(o exprObs) string {
	switch {
	case o.Panic != nil:
		return "PANIC " + o.Panic.Msg
	case o.Err != "":
		return "error " + o.Err
	case o.Val != nil:
		return "value " + o.Val.Key()
	}
	return o.Back
}

const c06FixedCases = ast.NumBinary + 2 // one per binary operator, unary, integer grid

func c06Run(c *core.C) {
	switch {
	case c.Idx < ast.NumBinary:
		op := c.Idx
		for _, l := range c06Pool {
			for _, r := range c06Pool {
				cell := ast.BinaryNames[op] + "/" + kindTag(l) + "," + kindTag(r)
				out := c06Compare(c, cell, ast.Expr{ast.OV(l), ast.OV(r), ast.OB(op)}, nil)
				c.NT(cell + "/" + out)
				// same cell with the operands bound through variables
				out2 := c06Compare(c, cell, ast.Expr{ast.OV(ast.Var("l")), ast.OV(ast.Var("r")), ast.OB(op)}, map[string]ast.Term{"l": l, "r": r})
				if out2 != out {
					c.Violate("expr-variable-vs-literal/"+cell, "binding operands through variables changes the outcome", map[string]any{"l": l.Key(), "r": r.Key(), "op": ast.BinaryNames[op]})
				}
			}
		}
		if op == ast.BEqual {
			// equality is symmetric whatever one thinks of sets written with repeated members:
			// a == b and b == a agree (same value, or both errors)
			pool := append(append([]ast.Term{}, c06Pool...),
				ast.SetOf(ast.Int(1), ast.Int(1), ast.Int(2)), ast.SetOf(ast.Int(1), ast.Int(2), ast.Int(3)), ast.SetOf(ast.Int(1), ast.Int(2), ast.Int(2)),
				ast.SetOf(ast.Str("a"), ast.Str("a")), ast.SetOf(ast.Str("a"), ast.Str("b")), ast.SetOf(ast.Bytes([]byte{1}), ast.Bytes([]byte{1})), ast.SetOf(ast.Bytes([]byte{1}), ast.Bytes([]byte{2})))
			for _, l := range pool {
				for _, r := range pool {
					c.Eval(1)
					ab := libEval(ast.Expr{ast.OV(l), ast.OV(r), ast.OB(op)}, nil)
					ba := libEval(ast.Expr{ast.OV(r), ast.OV(l), ast.OB(op)}, nil)
					if ab.Panic != nil || ba.Panic != nil {
						continue // reported by the table above
					}
					if (ab.Err == "") != (ba.Err == "") || (ab.Val != nil && ba.Val != nil && ab.Val.Key() != ba.Val.Key()) {
						c.Violate("expr-equality-not-symmetric/"+kindTag(l)+","+kindTag(r), fmt.Sprintf("%s == %s gives %s, %s == %s gives %s", l.Key(), r.Key(), obsText(ab), r.Key(), l.Key(), obsText(ba)), map[string]any{"l": l.Key(), "r": r.Key()})
					}
				}
			}
			c.Count("equality_symmetry_pairs", len(pool)*len(pool))
		}
		c.Sample(map[string]any{"kind": "exhaustive binary table", "operator": ast.BinaryNames[op], "operands": len(c06Pool) * len(c06Pool)})
	case c.Idx == ast.NumBinary:
		for u := 0; u < 3; u++ {
			for _, v := range c06Pool {
				cell := ast.UnaryNames[u] + "/" + kindTag(v)
				out := c06Compare(c, cell, ast.Expr{ast.OV(v), ast.OU(u)}, nil)
				c.NT(cell + "/" + out)
			}
		}
		// single value, empty sequence, lone operators
		c06Compare(c, "seq/empty", ast.Expr{}, nil)
		for u := 0; u < 3; u++ {
			c06Compare(c, "seq/lone-unary", ast.Expr{ast.OU(u)}, nil)
		}
		for b := 0; b < ast.NumBinary; b++ {
			c06Compare(c, "seq/lone-binary", ast.Expr{ast.OB(b)}, nil)
			c06Compare(c, "seq/binary-one-operand", ast.Expr{ast.OV(ast.Int(1)), ast.OB(b)}, nil)
		}
		for _, v := range c06Pool {
			c06Compare(c, "seq/single-value", ast.Expr{ast.OV(v)}, nil)
			c06Compare(c, "seq/two-values", ast.Expr{ast.OV(v), ast.OV(v)}, nil)
		}
		c06Compare(c, "seq/unbound-variable", ast.Expr{ast.OV(ast.Var("nope"))}, map[string]ast.Term{"x": ast.Int(1)})
		c06Compare(c, "seq/unbound-variable", ast.Expr{ast.OV(ast.Int(1)), ast.OV(ast.Var("nope")), ast.OB(ast.BAdd)}, nil)
		// stack depth: n pushes then n-1 additions
		for _, n := range []int{2, 10, 500, 899, 900, 999, 1000, 1001, 1002, 1100, 1101, 1500, 5000} {
			e := ast.Expr{}
			for i := 0; i < n; i++ {
				e = append(e, ast.OV(ast.Int(1)))
			}
			for i := 0; i < n-1; i++ {
				e = append(e, ast.OB(ast.BAdd))
			}
			out := c06Compare(c, fmt.Sprintf("seq/depth-%d", n), e, nil)
			c.NT(fmt.Sprintf("depth/%d/%s", n, out))
			// deep parenthesis nesting keeps the stack at depth 1
			e2 := ast.Expr{ast.OV(ast.Bool(true))}
			for i := 0; i < n; i++ {
				e2 = append(e2, ast.OU(ast.UParens))
			}
			c06Compare(c, fmt.Sprintf("seq/parens-%d", n), e2, nil)
		}
		// string operands whose symbol index no table defines (a token can carry them), against
		// symbol tables holding 0, 1 and 2 entries: every operator that resolves the text returns
		// a value or an error, it does not panic
		for _, size := range []int{0, 1, 2} {
			tab := &datalog.SymbolTable{}
			for k := 0; k < size; k++ {
				tab.Insert(fmt.Sprintf("entry%d", k))
			}
			for _, idx := range []uint64{1024, 1025, 1026, 5000, 1<<63 - 1, 1 << 63, ^uint64(0)} {
				d := datalog.String(idx)
				exprs := map[string]datalog.Expression{
					"length":      {datalog.Value{ID: d}, datalog.UnaryOp{UnaryOpFunc: datalog.Length{}}},
					"starts_with": {datalog.Value{ID: d}, datalog.Value{ID: d}, datalog.BinaryOp{BinaryOpFunc: datalog.Prefix{}}},
					"ends_with":   {datalog.Value{ID: d}, datalog.Value{ID: datalog.String(0)}, datalog.BinaryOp{BinaryOpFunc: datalog.Suffix{}}},
					"contains":    {datalog.Value{ID: datalog.String(1)}, datalog.Value{ID: d}, datalog.BinaryOp{BinaryOpFunc: datalog.Contains{}}},
					"matches":     {datalog.Value{ID: d}, datalog.Value{ID: d}, datalog.BinaryOp{BinaryOpFunc: datalog.Regex{}}},
					"concat":      {datalog.Value{ID: d}, datalog.Value{ID: d}, datalog.BinaryOp{BinaryOpFunc: datalog.Add{}}},
					"equal":       {datalog.Value{ID: d}, datalog.Value{ID: d}, datalog.BinaryOp{BinaryOpFunc: datalog.Equal{}}},
				}
				for name, e := range exprs {
					c.Eval(1)
					if pi := lib.Try(func() { _, _ = e.Evaluate(map[datalog.Variable]*datalog.Term{}, tab.Clone()) }); pi != nil {
						c.Violate("expr-panic/"+pi.Site+"/dangling-string/"+name, fmt.Sprintf("%s on a string with undefined symbol index %d, symbol table of %d entries: %s", name, idx, size, pi.Msg), map[string]any{"operator": name, "index": idx, "table_entries": size})
					}
				}
			}
		}
		c.Count("dangling_string_evaluations", 3*7*7)
		// the same operators reached through Authorizer.Query with literals the authorizer has not interned
		authorizerQueriesWithFreshLiterals(c)
		c.Sample(map[string]any{"kind": "unary table + malformed sequences + stack depths"})
	case c.Idx == ast.NumBinary+1:
		for _, op := range []int{ast.BAdd, ast.BSub, ast.BMul, ast.BDiv} {
			for _, a := range c06Grid {
				for _, b := range c06Grid {
					cell := "grid/" + ast.BinaryNames[op]
					out := c06Compare(c, cell, ast.Expr{ast.OV(ast.Int(a)), ast.OV(ast.Int(b)), ast.OB(op)}, nil)
					c.NT(fmt.Sprintf("%s/%d/%d/%s", cell, a, b, out))
				}
			}
		}
		c.Sample(map[string]any{"kind": "integer boundary grid", "values": len(c06Grid), "ops": "+ - * /"})
	default:
		c06Random(c)
	}
}

// typed random trees -------------------------------------------------------------------------

func c06Tree(r *rand.Rand, want ast.Kind, elem ast.Kind, depth int, env map[string]ast.Term) ast.Expr {
	leaf := func() ast.Expr {
		var t ast.Term
		if want == ast.KSet {
			n := 1 + r.Intn(3)
			if r.Intn(5) == 0 {
				n = 4 + r.Intn(14)
			}
			t = gen.SetOf(r, elem, n, r.Intn(2) == 0)
		} else if r.Intn(2) == 0 {
			t = gen.HardScalar(r, want)
		} else {
			t = gen.Scalar(r, want)
		}
		if r.Intn(3) == 0 {
			name := fmt.Sprintf("v%d", len(env))
			env[name] = t
			return ast.Expr{ast.OV(ast.Var(name))}
		}
		return ast.Expr{ast.OV(t)}
	}
	if depth <= 0 || r.Intn(4) == 0 {
		return leaf()
	}
	sub := func(k ast.Kind, el ast.Kind) ast.Expr { return c06Tree(r, k, el, depth-1, env) }
	cat := func(xs ...ast.Expr) ast.Expr {
		out := ast.Expr{}
		for _, x := range xs {
			out = append(out, x...)
		}
		return out
	}
	if r.Intn(6) == 0 {
		return cat(sub(want, elem), ast.Expr{ast.OU(ast.UParens)})
	}
	anyElem := func() ast.Kind { return gen.Pick(r, gen.ScalarKinds) }
	switch want {
	case ast.KBool:
		switch r.Intn(9) {
		case 0:
			return cat(sub(ast.KBool, 0), ast.Expr{ast.OU(ast.UNegate)})
		case 1:
			return cat(sub(ast.KBool, 0), sub(ast.KBool, 0), ast.Expr{ast.OB(gen.Pick(r, []int{ast.BAnd, ast.BOr}))})
		case 2:
			k := gen.Pick(r, []ast.Kind{ast.KInt, ast.KDate})
			return cat(sub(k, 0), sub(k, 0), ast.Expr{ast.OB(gen.Pick(r, []int{ast.BLessThan, ast.BLessOrEqual, ast.BGreaterThan, ast.BGreaterOrEqual}))})
		case 3:
			k := gen.Pick(r, append([]ast.Kind{ast.KSet}, gen.ScalarKinds...))
			el := anyElem()
			return cat(sub(k, el), sub(k, el), ast.Expr{ast.OB(ast.BEqual)})
		case 4:
			return cat(sub(ast.KStr, 0), sub(ast.KStr, 0), ast.Expr{ast.OB(gen.Pick(r, []int{ast.BPrefix, ast.BSuffix, ast.BContains, ast.BRegex}))})
		case 5:
			el := anyElem()
			return cat(sub(ast.KSet, el), sub(el, 0), ast.Expr{ast.OB(ast.BContains)})
		case 6:
			el := anyElem()
			return cat(sub(ast.KSet, el), sub(ast.KSet, el), ast.Expr{ast.OB(ast.BContains)})
		}
		return leaf()
	case ast.KInt:
		switch r.Intn(4) {
		case 0:
			return cat(sub(ast.KInt, 0), sub(ast.KInt, 0), ast.Expr{ast.OB(gen.Pick(r, []int{ast.BAdd, ast.BSub, ast.BMul, ast.BDiv}))})
		case 1:
			k := gen.Pick(r, []ast.Kind{ast.KStr, ast.KBytes, ast.KSet})
			return cat(sub(k, anyElem()), ast.Expr{ast.OU(ast.ULength)})
		}
		return leaf()
	case ast.KStr:
		if r.Intn(2) == 0 {
			return cat(sub(ast.KStr, 0), sub(ast.KStr, 0), ast.Expr{ast.OB(ast.BAdd)})
		}
		return leaf()
	case ast.KSet:
		if r.Intn(2) == 0 {
			return cat(sub(ast.KSet, elem), sub(ast.KSet, elem), ast.Expr{ast.OB(gen.Pick(r, []int{ast.BUnion, ast.BIntersection}))})
		}
		return leaf()
	}
	return leaf()
}

func c06Random(c *core.C) {
	r := c.R
	// (b) well-typed trees
	for i := 0; i < 40; i++ {
		env := map[string]ast.Term{}
		want := gen.Pick(r, []ast.Kind{ast.KBool, ast.KBool, ast.KInt, ast.KStr, ast.KSet})
		e := c06Tree(r, want, gen.Pick(r, gen.ScalarKinds), 1+r.Intn(5), env)
		out := c06Compare(c, "tree/"+core.Head(e.Shape(), 60), e, env)
		c.NT("tree/" + e.Shape() + "/" + out)
		if i == 0 {
			c.Sample(map[string]any{"kind": "typed tree", "expr": e.Key(), "env": core.JSON(env), "outcome": out})
		}
	}
	// (c) arbitrary operator sequences
	for i := 0; i < 40; i++ {
		n := 1 + r.Intn(8)
		e := ast.Expr{}
		env := map[string]ast.Term{}
		for j := 0; j < n; j++ {
			switch r.Intn(5) {
			case 0:
				e = append(e, ast.OU(r.Intn(3)))
			case 1:
				e = append(e, ast.OB(r.Intn(ast.NumBinary)))
			default:
				t := gen.Pick(r, c06Pool)
				if r.Intn(4) == 0 {
					name := fmt.Sprintf("w%d", j)
					if r.Intn(3) != 0 {
						env[name] = t
					}
					t = ast.Var(name)
				}
				e = append(e, ast.OV(t))
			}
		}
		out := c06Compare(c, "sequence/"+core.Head(e.Shape(), 60), e, env)
		c.NT("seq/" + e.Shape() + "/" + out)
	}
}

func init() {
	core.Register(&core.Prop{
		ID:    "C06",
		Level: "exploration",
		Rule: "cases 0..16: one binary operator each over ALL ordered pairs of a 45-value pool covering every kind and boundary (literal and variable-bound operands); case 17: 3 unary operators x pool, malformed sequences, stack depths 2..5000; case 18: 33x33 integer boundary grid for + - * /; later cases: 40 random well-typed trees (depth<=6) and 40 random operator sequences each. " +
			"Oracle: reference evaluator R2 (math/big, written from the documented operator table). Non-trivial/distinct = distinct (operator, operand kinds incl. set element kind, outcome) tuples, distinct grid points, distinct tree/sequence shapes with outcome.",
		Assumptions: []string{"Go regexp (RE2) is the regex semantics on both sides", "lenient zone (sets of different element kinds, sets with duplicates, stack depth 901..1100) only requires no panic and no 'true' across kinds"},
		NumCases: func(tier string) int {
			if tier == "thorough" {
				return c06FixedCases + 600000
			}
			return c06FixedCases + 400
		},
		Run: c06Run,
		Floor: func(a *core.Agg) []string {
			u := []string{}
			if len(a.NT) < 3000 {
				u = append(u, fmt.Sprintf("distinct cells/shapes %d < 3000", len(a.NT)))
			}
			return u
		},
		Exhaustive: func(string) bool { return false },
	})
}
