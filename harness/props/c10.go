package props

import (
	"crypto/ed25519"
	"encoding/hex"
	"errors"
	"fmt"
	"math"
	"math/rand"
	"os"
	"path/filepath"
	"sort"
	"strings"
	"time"

	biscuit "github.com/biscuit-auth/biscuit-go/v2"
	"github.com/biscuit-auth/biscuit-go/v2/datalog"

	"verif/harness/ast"
	"verif/harness/core"
	"verif/harness/gen"
	"verif/harness/lib"
	"verif/harness/wire"
)

// C10 - untrusted token bytes can never crash the verifier.
// Oracle: panic monitor (recover around every API call) + process-exit journal (a panic on a
// library-owned goroutine kills the worker; the driver attributes the death to the case).

var c10Stages = []string{}

// c10Pipeline drives every API over a token obtained from untrusted bytes.
// It returns whether Unmarshal and AuthorizerFor succeeded (evaluation reached).
func c10Pipeline(c *core.C, x []byte, signer ed25519.PublicKey, desc func() any) (loaded, reached bool) {
	stage := func(name string, f func()) bool {
		c.Eval(1)
		pi := lib.Try(f)
		if pi != nil {
			c.Violate("panic/"+pi.Site+"/"+name, fmt.Sprintf("%s panicked on a token from untrusted bytes: %s", name, pi.Msg), map[string]any{"stage": name, "panic": pi, "input": desc(), "token_hex": core.Head(hex.EncodeToString(x), 20000)})
			return false
		}
		return true
	}
	var tok *biscuit.Biscuit
	var err error
	if !stage("Unmarshal", func() { tok, err = biscuit.Unmarshal(x) }) || err != nil || tok == nil {
		// LoadPolicies on the same bytes, against an independent authorizer
		c10LoadPolicies(c, x, desc)
		return false, false
	}
	loaded = true
	stage("String", func() { _ = tok.String() })
	stage("Code", func() { _ = tok.Code() })
	stage("Checks", func() { _ = tok.Checks() })
	stage("GetContext", func() { _ = tok.GetContext() })
	stage("BlockCount", func() { _ = tok.BlockCount() })
	stage("RootKeyID", func() { _ = tok.RootKeyID() })
	stage("RevocationIds", func() { _ = tok.RevocationIds() })
	stage("Serialize", func() { _, _ = tok.Serialize() })
	stage("GetBlockID", func() {
		_, _ = tok.GetBlockID(ast.P("right", ast.Str("file1"), ast.Str("read")).LibFact())
		_, _ = tok.GetBlockID(ast.P("p", ast.Int(1)).LibFact())
	})
	rnd, _ := lib.KeyPair(c.Seed, "c10-random-key")
	keyed := []struct {
		name string
		src  biscuit.PublickKeyByIDProjection
	}{
		{"AuthorizerFor(signer)", biscuit.WithSingularRootPublicKey(signer)},
		{"AuthorizerFor(random key)", biscuit.WithSingularRootPublicKey(rnd)},
		{"AuthorizerFor(key map)", biscuit.WithRootPublicKeys(map[uint32]ed25519.PublicKey{0: signer, 1: rnd}, &signer)},
	}
	var az biscuit.Authorizer
	for i, k := range keyed {
		var a biscuit.Authorizer
		var aerr error
		stage(k.name, func() { a, aerr = tok.AuthorizerFor(k.src) })
		if i == 0 && aerr == nil && a != nil {
			az = a
		}
	}
	stage("Authorizer(signer)", func() { _, _ = tok.Authorizer(signer) })
	if az != nil {
		reached = true
		stage("Authorizer.Add*", func() {
			az.AddFact(ast.P("resource", ast.Str("file1")).LibFact())
			az.AddFact(ast.P("operation", ast.Str("read")).LibFact())
			az.AddRule(ast.Rule{Head: ast.P("seen", ast.Var("x")), Body: []ast.Pred{ast.P("p", ast.Var("x"))}}.Lib())
			az.AddCheck(ast.Check{Queries: []ast.Rule{{Head: ast.P("query"), Body: []ast.Pred{ast.P("resource", ast.Var("r"))}}}}.Lib())
			az.AddPolicy(ast.Policy{Allow: true, Queries: []ast.Rule{{Head: ast.P("query")}}}.Lib())
		})
		stage("SerializePolicies", func() { _, _ = az.SerializePolicies() })
		stage("Authorize", func() { _ = az.Authorize() })
		stage("Authorize(second)", func() { _ = az.Authorize() })
		stage("Query", func() {
			_, _ = az.Query(ast.Rule{Head: ast.P("out", ast.Var("x")), Body: []ast.Pred{ast.P("p", ast.Var("x"))}}.Lib())
			_, _ = az.Query(ast.Rule{Head: ast.P("out", ast.Var("x"), ast.Var("y")), Body: []ast.Pred{ast.P("p2", ast.Var("x"), ast.Var("y"))}}.Lib())
			// plain look-ups (head = the one body atom) with constants of every kind, byte arrays
			// and sets included, against whatever the token put under p / p2
			for _, k := range []ast.Term{ast.Bytes([]byte{1}), ast.Bytes(nil), ast.SetOf(ast.Int(1)), ast.SetOf(ast.Bytes([]byte{1})), ast.SetOf(ast.Str("a")), ast.Int(1), ast.Str("a"), ast.Date(0), ast.Bool(true)} {
				_, _ = az.Query(ast.Rule{Head: ast.P("p", k), Body: []ast.Pred{ast.P("p", k)}}.Lib())
				_, _ = az.Query(ast.Rule{Head: ast.P("p2", k, ast.Var("w")), Body: []ast.Pred{ast.P("p2", k, ast.Var("w"))}}.Lib())
				_, _ = az.Query(ast.Rule{Head: ast.P("p2", ast.Var("w"), k), Body: []ast.Pred{ast.P("p2", ast.Var("w"), k)}}.Lib())
			}
		})
		stage("PrintWorld", func() { _ = az.PrintWorld() })
		stage("Reset", func() { az.Reset() })
		stage("Authorize(after reset)", func() { _ = az.Authorize() })
		// the same token under a tiny fact limit: the first evaluation stops at the limit and
		// leaves the world above it, the following calls start from there
		stage("Authorize, Authorize, Query above a fact limit of 3", func() {
			a, err := tok.AuthorizerFor(biscuit.WithSingularRootPublicKey(signer), biscuit.WithWorldOptions(datalog.WithMaxFacts(3), datalog.WithMaxIterations(50), datalog.WithMaxDuration(200*time.Millisecond)))
			if err != nil {
				return
			}
			for i := 0; i < 4; i++ {
				a.AddFact(ast.P("n", ast.Int(int64(i))).LibFact())
			}
			a.AddRule(ast.Rule{Head: ast.P("pair", ast.Var("x"), ast.Var("y")), Body: []ast.Pred{ast.P("n", ast.Var("x")), ast.P("n", ast.Var("y"))}}.Lib())
			a.AddPolicy(ast.Policy{Allow: true, Queries: []ast.Rule{{Head: ast.P("query")}}}.Lib())
			_ = a.Authorize()
			_ = a.Authorize()
			_, _ = a.Query(ast.Rule{Head: ast.P("out", ast.Var("x")), Body: []ast.Pred{ast.P("n", ast.Var("x"))}}.Lib())
			_ = a.Authorize()
		})
	}
	rng := lib.NewDetRand(c.Seed, fmt.Sprintf("c10-%d", c.Idx))
	stage("CreateBlock+Append", func() {
		bb := tok.CreateBlock()
		_ = bb.AddFact(ast.P("added", ast.Str("by_holder")).LibFact())
		_ = bb.AddCheck(ast.Check{Queries: []ast.Rule{{Head: ast.P("query"), Body: []ast.Pred{ast.P("p", ast.Var("x"))}}}}.Lib())
		nb, err := tok.Append(rng, bb.Build())
		if err == nil && nb != nil {
			_ = nb.String()
			_, _ = nb.Serialize()
			if a, err := nb.AuthorizerFor(biscuit.WithSingularRootPublicKey(signer)); err == nil {
				_ = a.Authorize()
			}
		}
	})
	stage("Seal", func() {
		nb, err := tok.Seal(rng)
		if err == nil && nb != nil {
			_, _ = nb.Serialize()
			_, _ = nb.AuthorizerFor(biscuit.WithSingularRootPublicKey(signer))
		}
	})
	c10LoadPolicies(c, x, desc)
	return
}

var c10Host *biscuit.Biscuit
var c10HostPub ed25519.PublicKey

func c10LoadPolicies(c *core.C, x []byte, desc func() any) {
	if c10Host == nil {
		pub, priv := lib.KeyPair(1, "c10-host")
		t, err := lib.Build(priv, lib.NewDetRand(1, "c10-host"), []ast.Block{{Facts: []ast.Pred{ast.P("right", ast.Str("file1"), ast.Str("read"))}}}, nil)
		if err != nil {
			return
		}
		c10Host, c10HostPub = t.B, pub
	}
	c.Eval(1)
	pi := lib.Try(func() {
		a, err := c10Host.AuthorizerFor(biscuit.WithSingularRootPublicKey(c10HostPub))
		if err != nil {
			return
		}
		if err := a.LoadPolicies(x); err == nil {
			_ = a.Authorize()
			_ = a.PrintWorld()
		}
	})
	if pi != nil {
		c.Violate("panic/"+pi.Site+"/LoadPolicies", "LoadPolicies panicked on untrusted bytes: "+pi.Msg, map[string]any{"panic": pi, "input": desc(), "bytes_hex": core.Head(hex.EncodeToString(x), 20000)})
	}
}

// ---- hostile value catalogue (DESIGN appendix B) -----------------------------------------

var c10Indexes = []uint64{0, 27, 28, 1023, 1024, 1025, 1030, 1 << 31, 1 << 32, 1<<63 - 1, 1 << 63, 1<<63 + 1, math.MaxUint64}

func c10HostileTerms(r *rand.Rand) []wire.Term {
	out := []wire.Term{}
	for _, i := range c10Indexes {
		out = append(out, wire.Term{Tag: wire.TString, U: i})
		out = append(out, wire.Term{Tag: wire.TVariable, U: uint64(uint32(i))})
	}
	for _, v := range gen.BoundInt {
		out = append(out, wire.Term{Tag: wire.TInteger, I: v})
	}
	for _, d := range gen.BoundDate {
		out = append(out, wire.Term{Tag: wire.TDate, U: d})
	}
	big := make([]byte, 64<<10)
	for i := range big {
		big[i] = byte(i)
	}
	out = append(out, wire.Term{Tag: wire.TBytes, B: []byte{}}, wire.Term{Tag: wire.TBytes, B: []byte{7}}, wire.Term{Tag: wire.TBytes, B: big})
	out = append(out, wire.Term{Tag: wire.TBool, Bo: true}, wire.Term{Tag: wire.TBool, Bo: false})
	out = append(out, wire.Term{}) // empty oneof
	set := func(es ...wire.Term) wire.Term { return wire.Term{Tag: wire.TSet, Set: es} }
	i1, i2 := wire.Term{Tag: wire.TInteger, I: 1}, wire.Term{Tag: wire.TInteger, I: 2}
	s1, s2 := wire.Term{Tag: wire.TString, U: 0}, wire.Term{Tag: wire.TString, U: 1 << 63}
	y1, y2 := wire.Term{Tag: wire.TBytes, B: []byte{1}}, wire.Term{Tag: wire.TBytes, B: []byte{2}}
	d1 := wire.Term{Tag: wire.TDate, U: 1 << 63}
	b1 := wire.Term{Tag: wire.TBool, Bo: true}
	v1 := wire.Term{Tag: wire.TVariable, U: 1024}
	out = append(out,
		set(i1), set(i1, i2), set(i1, i1), set(s1), set(s1, s2), set(s2), set(y1), set(y1, y2), set(y1, y1), set(d1), set(b1),
		set(),            // empty: must be rejected
		set(set(i1)),     // nested: must be rejected
		set(i1, s1),      // mixed: must be rejected
		set(v1),          // variable inside a set: must be rejected
		set(wire.Term{}), // empty element
		set(i1, wire.Term{}),
	)
	bigset := wire.Term{Tag: wire.TSet}
	for i := 0; i < 1000; i++ {
		bigset.Set = append(bigset.Set, wire.Term{Tag: wire.TInteger, I: int64(i)})
	}
	out = append(out, bigset)
	// sets of 9, 17 and 64 members of every kind (implementations switch algorithms by size)
	for _, n := range []int{9, 17, 64} {
		by, st, dt := wire.Term{Tag: wire.TSet}, wire.Term{Tag: wire.TSet}, wire.Term{Tag: wire.TSet}
		for i := 0; i < n; i++ {
			by.Set = append(by.Set, wire.Term{Tag: wire.TBytes, B: []byte{byte(i), 0x41}})
			st.Set = append(st.Set, wire.Term{Tag: wire.TString, U: uint64(i % 28)})
			dt.Set = append(dt.Set, wire.Term{Tag: wire.TDate, U: uint64(i)})
		}
		out = append(out, by, st, dt)
	}
	return out
}

// c10Program places the hostile term h in one of the placements of appendix B.
// Predicate p is at symbol index pIdx (hostile name indexes are used too).
func c10Program(h wire.Term, placement int, op int, nameIdx uint64) (tables [][]string, blocks []*wire.Block, what string) {
	v3 := uint32(3)
	ctx := ""
	syms := []string{"p", "q", "p2", "x", "y", "seen"} // 1024..1029
	P, Q, P2, X, Y := nameIdx, uint64(1025), uint64(1026), uint64(1027), uint64(1028)
	vx := wire.Term{Tag: wire.TVariable, U: X}
	vy := wire.Term{Tag: wire.TVariable, U: Y}
	one := wire.Term{Tag: wire.TInteger, I: 1}
	pred := func(n uint64, ts ...wire.Term) wire.Pred { return wire.Pred{Name: n, Terms: ts} }
	query := func(body []wire.Pred, exprs ...wire.Expr) wire.Check {
		return wire.Check{{Head: pred(27), Body: body, Exprs: exprs}}
	}
	auth := &wire.Block{Symbols: syms, Context: &ctx, Version: &v3}
	later := &wire.Block{Context: &ctx, Version: &v3}
	blocks = []*wire.Block{auth}
	switch placement {
	case 0:
		what = "authority fact p(h)"
		auth.Facts = append(auth.Facts, pred(P, h))
		auth.Checks = append(auth.Checks, query([]wire.Pred{pred(P, vx)}))
	case 1:
		what = "later-block fact p(h) + check"
		later.Facts = append(later.Facts, pred(P, h))
		later.Checks = append(later.Checks, query([]wire.Pred{pred(P, vx)}))
		blocks = append(blocks, later)
	case 2:
		what = "constant in a rule body that matches a fact with the same value"
		auth.Facts = append(auth.Facts, pred(P, h), pred(P, one))
		auth.Rules = append(auth.Rules, wire.Rule{Head: pred(Q, vx), Body: []wire.Pred{pred(P, vx), pred(P, h)}})
		auth.Checks = append(auth.Checks, query([]wire.Pred{pred(Q, vx)}))
	case 3:
		what = "twice under one repeated variable"
		auth.Facts = append(auth.Facts, pred(P2, h, h), pred(P2, one, h))
		auth.Rules = append(auth.Rules, wire.Rule{Head: pred(Q, vx), Body: []wire.Pred{pred(P2, vx, vx)}})
		later.Checks = append(later.Checks, query([]wire.Pred{pred(Q, vx)}))
		blocks = append(blocks, later)
	case 4:
		what = "rule head q(h) <- p($x), with two matching facts"
		auth.Facts = append(auth.Facts, pred(P, one), pred(P, wire.Term{Tag: wire.TInteger, I: 2}))
		auth.Rules = append(auth.Rules, wire.Rule{Head: pred(Q, h), Body: []wire.Pred{pred(P, vx)}})
		auth.Checks = append(auth.Checks, query([]wire.Pred{pred(Q, vy)}))
	case 5:
		what = "check query constant p(h)"
		auth.Facts = append(auth.Facts, pred(P, h))
		auth.Checks = append(auth.Checks, query([]wire.Pred{pred(P, h)}))
		later.Checks = append(later.Checks, query([]wire.Pred{pred(P, h)}))
		blocks = append(blocks, later)
	case 6:
		what = fmt.Sprintf("operand of binary operator %d: q($x) <- p($x), $x op h ; and h op $x in a check", op)
		auth.Facts = append(auth.Facts, pred(P, h), pred(P, one))
		e1 := wire.Expr{{Tag: wire.OValue, Val: vx}, {Tag: wire.OValue, Val: h}, {Tag: wire.OBinary, Kind: uint64(op)}}
		e2 := wire.Expr{{Tag: wire.OValue, Val: h}, {Tag: wire.OValue, Val: vx}, {Tag: wire.OBinary, Kind: uint64(op)}}
		auth.Rules = append(auth.Rules, wire.Rule{Head: pred(Q, vx), Body: []wire.Pred{pred(P, vx)}, Exprs: []wire.Expr{e1}})
		later.Checks = append(later.Checks, query([]wire.Pred{pred(P, vx)}, e2))
		if h.Tag == wire.TSet && len(h.Set) > 0 {
			// the same operator between the hostile set and a one-element set taken from it
			// (operands of different sizes that share members: duplicates matter here)
			sub := wire.Term{Tag: wire.TSet, Set: []wire.Term{h.Set[0]}}
			e3 := wire.Expr{{Tag: wire.OValue, Val: h}, {Tag: wire.OValue, Val: sub}, {Tag: wire.OBinary, Kind: uint64(op)}}
			e4 := wire.Expr{{Tag: wire.OValue, Val: sub}, {Tag: wire.OValue, Val: h}, {Tag: wire.OBinary, Kind: uint64(op)}}
			later.Checks = append(later.Checks, query([]wire.Pred{pred(P, vx)}, e3), query([]wire.Pred{pred(P, vx)}, e4))
		}
		blocks = append(blocks, later)
	case 7:
		what = fmt.Sprintf("operand of unary operator %d", op%3)
		auth.Facts = append(auth.Facts, pred(P, h))
		e1 := wire.Expr{{Tag: wire.OValue, Val: vx}, {Tag: wire.OUnary, Kind: uint64(op % 3)}}
		e2 := wire.Expr{{Tag: wire.OValue, Val: h}, {Tag: wire.OUnary, Kind: uint64(op % 3)}}
		auth.Checks = append(auth.Checks, query([]wire.Pred{pred(P, vx)}, e1), query(nil, e2))
	}
	return nil, blocks, what
}

// c10SetAlgebra enumerates set-against-set expressions over operands with repeated and shared
// members (the wire format does not forbid repeats): one expression per token, so that an
// error in one expression cannot hide another. k selects (left, right, operator).
var c10SetOps = []uint64{4, 5, 15, 16} // equal, contains, intersection, union

func c10SetPool() []wire.Term {
	set := func(es ...wire.Term) wire.Term { return wire.Term{Tag: wire.TSet, Set: es} }
	i := func(v int64) wire.Term { return wire.Term{Tag: wire.TInteger, I: v} }
	y := func(v byte) wire.Term { return wire.Term{Tag: wire.TBytes, B: []byte{v}} }
	st := func(v uint64) wire.Term { return wire.Term{Tag: wire.TString, U: v} }
	return []wire.Term{
		set(i(1)), set(i(2)), set(i(1), i(1)), set(i(1), i(2)), set(i(1), i(1), i(2)), set(i(2), i(1), i(1)), set(i(1), i(2), i(3), i(1)),
		set(y(1)), set(y(1), y(1)), set(y(1), y(2), y(1)),
		set(st(0)), set(st(0), st(0)), set(st(0), st(1), st(0)),
	}
}

func c10NumSetAlgebra() int { n := len(c10SetPool()); return n*n*len(c10SetOps) + 9*len(c10SetOps) }

// c10EmptySets: both operands are sets COMPUTED to be empty (an empty set cannot be written into
// a token, the intersection of two disjoint sets produces one during evaluation).
func c10EmptySets(k int) (blocks []*wire.Block, what string) {
	set := func(es ...wire.Term) wire.Term { return wire.Term{Tag: wire.TSet, Set: es} }
	i := func(v int64) wire.Term { return wire.Term{Tag: wire.TInteger, I: v} }
	y := func(v byte) wire.Term { return wire.Term{Tag: wire.TBytes, B: []byte{v}} }
	st := func(v uint64) wire.Term { return wire.Term{Tag: wire.TString, U: v} }
	pairs := [][2]wire.Term{{set(i(1)), set(i(2))}, {set(y(1)), set(y(2))}, {set(st(0)), set(st(1))}}
	l, r, op := pairs[k%3], pairs[k/3%3], c10SetOps[k/9%len(c10SetOps)]
	inter := func(p [2]wire.Term) wire.Expr {
		return wire.Expr{{Tag: wire.OValue, Val: p[0]}, {Tag: wire.OValue, Val: p[1]}, {Tag: wire.OBinary, Kind: 15}}
	}
	e := append(append(wire.Expr{}, inter(l)...), inter(r)...)
	e = append(e, wire.Op{Tag: wire.OBinary, Kind: op})
	if op >= 15 {
		e = append(e, wire.Op{Tag: wire.OUnary, Kind: 2}, wire.Op{Tag: wire.OValue, Val: i(0)}, wire.Op{Tag: wire.OBinary, Kind: 3})
	}
	v3 := uint32(3)
	ctx := ""
	auth := &wire.Block{Symbols: []string{"p"}, Context: &ctx, Version: &v3}
	auth.Facts = append(auth.Facts, wire.Pred{Name: 1024, Terms: []wire.Term{i(1)}})
	auth.Checks = append(auth.Checks, wire.Check{{Head: wire.Pred{Name: 27}, Exprs: []wire.Expr{e}}})
	return []*wire.Block{auth}, fmt.Sprintf("computed empty sets: (%s & %s) op%d (%s & %s)", l[0].String(), l[1].String(), op, r[0].String(), r[1].String())
}

func c10SetAlgebra(k int) (blocks []*wire.Block, what string) {
	pool := c10SetPool()
	n := len(pool)
	if k >= n*n*len(c10SetOps) {
		return c10EmptySets(k - n*n*len(c10SetOps))
	}
	a, b, op := pool[k%n], pool[k/n%n], c10SetOps[k/n/n%len(c10SetOps)]
	v3 := uint32(3)
	ctx := ""
	e := wire.Expr{{Tag: wire.OValue, Val: a}, {Tag: wire.OValue, Val: b}, {Tag: wire.OBinary, Kind: op}}
	if op >= 15 {
		// a set result: ask for its length so that the check has a boolean to decide on
		e = append(e, wire.Op{Tag: wire.OUnary, Kind: 2}, wire.Op{Tag: wire.OValue, Val: wire.Term{Tag: wire.TInteger, I: 0}}, wire.Op{Tag: wire.OBinary, Kind: 3})
	}
	auth := &wire.Block{Symbols: []string{"p"}, Context: &ctx, Version: &v3}
	auth.Facts = append(auth.Facts, wire.Pred{Name: 1024, Terms: []wire.Term{a}})
	auth.Checks = append(auth.Checks, wire.Check{{Head: wire.Pred{Name: 27}, Exprs: []wire.Expr{e}}})
	return []*wire.Block{auth}, fmt.Sprintf("set algebra: %s op%d %s", a.String(), op, b.String())
}

// c10BadSel selects the ill-formed expression and its placement of structural case 3 (-1: random).
var c10BadSel = -1

const c10NumBadExprs = 30

// c10Structural returns programs whose hostility is structural rather than a single value.
func c10Structural(r *rand.Rand, k int) (blocks []*wire.Block, what string) {
	v3 := uint32(3)
	ctx := ""
	syms := []string{"p", "q", "p2", "x", "y", "s"}
	P, Q, X, Y := uint64(1024), uint64(1025), uint64(1027), uint64(1028)
	vx := wire.Term{Tag: wire.TVariable, U: X}
	vy := wire.Term{Tag: wire.TVariable, U: Y}
	one := wire.Term{Tag: wire.TInteger, I: 1}
	pred := func(n uint64, ts ...wire.Term) wire.Pred { return wire.Pred{Name: n, Terms: ts} }
	query := func(body []wire.Pred, exprs ...wire.Expr) wire.Check {
		return wire.Check{{Head: pred(27), Body: body, Exprs: exprs}}
	}
	auth := &wire.Block{Symbols: syms, Context: &ctx, Version: &v3}
	blocks = []*wire.Block{auth}
	val := func(t wire.Term) wire.Op { return wire.Op{Tag: wire.OValue, Val: t} }
	bin := func(k uint64) wire.Op { return wire.Op{Tag: wire.OBinary, Kind: k} }
	un := func(k uint64) wire.Op { return wire.Op{Tag: wire.OUnary, Kind: k} }
	facts := func(n int) {
		for i := 0; i < n; i++ {
			auth.Facts = append(auth.Facts, pred(P, wire.Term{Tag: wire.TInteger, I: int64(i)}))
		}
	}
	switch k {
	case 0:
		what = "head variable missing from the body, 0 matches"
		auth.Rules = append(auth.Rules, wire.Rule{Head: pred(Q, vy), Body: []wire.Pred{pred(P, vx)}})
	case 1:
		what = "head variable missing from the body, 1 match"
		facts(1)
		auth.Rules = append(auth.Rules, wire.Rule{Head: pred(Q, vy), Body: []wire.Pred{pred(P, vx)}})
	case 2:
		what = "head variable missing from the body, 50 matches (rule, check and later block)"
		facts(50)
		auth.Rules = append(auth.Rules, wire.Rule{Head: pred(Q, vy), Body: []wire.Pred{pred(P, vx)}})
		auth.Checks = append(auth.Checks, wire.Check{{Head: pred(27, vy), Body: []wire.Pred{pred(P, vx)}}})
	case 3:
		what = "empty expression / lone operators / operators without kind"
		facts(2)
		// ONE ill-formed expression per token (a token is refused as a whole at the first expression
		// it cannot convert, which would hide the others), as a check, as a rule filter, in a later block
		bad := []wire.Expr{{}, {bin(4)}, {un(0)}, {{Tag: 0}}, {val(vx), {Tag: wire.OUnary, NoKind: true}}, {val(vx), val(vx), {Tag: wire.OBinary, NoKind: true}},
			{un(1), val(vx), val(vx), bin(4)}, {un(1), un(1), val(vx)}, {val(vx), val(vx)}, {val(vx), val(vx), val(vx), bin(4)}}
		bi, place := r.Intn(len(bad)), r.Intn(3)
		if c10BadSel >= 0 {
			bi, place = c10BadSel%len(bad), c10BadSel/len(bad)%3
		}
		what += fmt.Sprintf(" #%d placement %d", bi, place)
		switch place {
		case 0:
			auth.Checks = append(auth.Checks, query([]wire.Pred{pred(P, vx)}, bad[bi]))
		case 1:
			auth.Rules = append(auth.Rules, wire.Rule{Head: pred(Q, vx), Body: []wire.Pred{pred(P, vx)}, Exprs: []wire.Expr{bad[bi]}})
		default:
			later := &wire.Block{Context: auth.Context, Version: auth.Version}
			later.Checks = append(later.Checks, query([]wire.Pred{pred(P, vx)}, bad[bi]))
			blocks = append(blocks, later)
		}
	case 20:
		what = "operator kind outside the known range"
		facts(2)
		// operator kinds are enums, i.e. signed 32-bit numbers on the wire: unknown, huge and
		// NEGATIVE kinds (a ten-byte varint) in every position that carries one
		// (one kind per token: a token is refused as a whole at the first block it cannot convert)
		for _, k := range []uint64{gen.Pick(r, []uint64{17, 1000, 1<<31 - 1, 1 << 31, 0xFFFFFFFF80000000, ^uint64(16), ^uint64(0), ^uint64(1), 1 << 32})} {
			what += fmt.Sprintf("; operator kind %d in a later block", k)
			later := &wire.Block{Context: auth.Context, Version: auth.Version}
			later.Checks = append(later.Checks, query([]wire.Pred{pred(P, vx)}, wire.Expr{val(vx), val(vx), bin(k)}), query([]wire.Pred{pred(P, vx)}, wire.Expr{val(vx), un(k)}))
			later.Rules = append(later.Rules, wire.Rule{Head: pred(Q, vx), Body: []wire.Pred{pred(P, vx)}, Exprs: []wire.Expr{{val(vx), val(vx), bin(k)}}})
			blocks = append(blocks, later)
		}
	case 4:
		what = "unknown operator enum numbers"
		facts(2)
		for _, kk := range []uint64{3, 17, 99, 1 << 31, 1 << 40} {
			auth.Checks = append(auth.Checks, query([]wire.Pred{pred(P, vx)}, wire.Expr{val(vx), un(kk)}), query([]wire.Pred{pred(P, vx)}, wire.Expr{val(vx), val(vx), bin(kk)}))
		}
	case 5, 6, 7:
		n := []int{999, 1000, 1001}[k-5]
		what = fmt.Sprintf("%d pushed values then %d additions", n, n-1)
		facts(2)
		e := wire.Expr{}
		for i := 0; i < n; i++ {
			e = append(e, val(one))
		}
		for i := 0; i < n-1; i++ {
			e = append(e, bin(9))
		}
		e = append(e, val(one), bin(0))
		auth.Checks = append(auth.Checks, query([]wire.Pred{pred(P, vx)}, e))
	case 8:
		what = "5000 nested parentheses"
		facts(2)
		e := wire.Expr{val(wire.Term{Tag: wire.TBool, Bo: true})}
		for i := 0; i < 5000; i++ {
			e = append(e, un(1))
		}
		auth.Checks = append(auth.Checks, query([]wire.Pred{pred(P, vx)}, e))
	case 9:
		what = "invalid and very long regular expressions"
		auth.Symbols = append(auth.Symbols, "(", strings.Repeat("(a*)*", 60), strings.Repeat("a", 1200), "[[:foo:]]", "\\")
		auth.Facts = append(auth.Facts, pred(P, wire.Term{Tag: wire.TString, U: 1032}))
		for _, i := range []uint64{1030, 1031, 1032, 1033, 1034} {
			auth.Checks = append(auth.Checks, query([]wire.Pred{pred(P, vx)}, wire.Expr{val(vx), val(wire.Term{Tag: wire.TString, U: i}), bin(8)}))
		}
	case 10:
		what = "string concatenation chain: 900 leaves of a 256-byte string (every intermediate result is interned)"
		auth.Symbols = append(auth.Symbols, strings.Repeat("ab", 128))
		auth.Facts = append(auth.Facts, pred(P, wire.Term{Tag: wire.TString, U: 1030}))
		e := wire.Expr{val(vx)}
		for i := 0; i < 900; i++ {
			e = append(e, val(vx), bin(9))
		}
		e = append(e, un(2), val(one), bin(1))
		auth.Rules = append(auth.Rules, wire.Rule{Head: pred(Q, vx), Body: []wire.Pred{pred(P, vx)}, Exprs: []wire.Expr{e}})
	case 11:
		what = "3000-entry symbol table, symbol tables repeating default and earlier names"
		for i := 0; i < 3000; i++ {
			auth.Symbols = append(auth.Symbols, fmt.Sprintf("sym%d", i))
		}
		auth.Symbols = append(auth.Symbols, "read", "p", "p", "")
		facts(3)
		later := &wire.Block{Symbols: []string{"p", "read", "sym1", "x"}, Context: &ctx, Version: &v3}
		later.Facts = append(later.Facts, pred(P, one), pred(1024+3010, one))
		later.Checks = append(later.Checks, query([]wire.Pred{pred(P, vx)}))
		blocks = append(blocks, later)
	case 12:
		what = "facts with variables (wildcards), duplicate facts, zero-arity and wide predicates"
		auth.Facts = append(auth.Facts, pred(P, vx), pred(P, vx), pred(P, one), pred(P, one), pred(Q), pred(Q, one, one, one, one, one, one, one, one))
		auth.Rules = append(auth.Rules, wire.Rule{Head: pred(Q, vx), Body: []wire.Pred{pred(P, vx)}})
		auth.Checks = append(auth.Checks, query([]wire.Pred{pred(P, wire.Term{Tag: wire.TInteger, I: 5})}), query([]wire.Pred{pred(Q, vx)}))
	case 13:
		what = "missing required fields: fact without predicate, predicate without name, rule without head"
		auth.RawFacts = append(auth.RawFacts, []byte{}, wire.RawBytesField(1, wire.EncodePred(wire.Pred{NoName: true, Terms: []wire.Term{one}})))
		auth.Rules = append(auth.Rules, wire.Rule{NoHead: true, Body: []wire.Pred{pred(P, vx)}})
		auth.Checks = append(auth.Checks, wire.Check{{NoHead: true, Body: []wire.Pred{pred(P, vx)}}})
	case 14:
		what = "rule without head inside a check only"
		facts(1)
		auth.Checks = append(auth.Checks, wire.Check{{NoHead: true, Body: []wire.Pred{pred(P, vx)}}})
	case 15:
		what = "predicate without name in a rule body"
		facts(1)
		auth.Rules = append(auth.Rules, wire.Rule{Head: pred(Q, vx), Body: []wire.Pred{{NoName: true, Terms: []wire.Term{vx}}}})
	case 16:
		what = "fact without predicate"
		auth.RawFacts = append(auth.RawFacts, []byte{})
	case 17:
		what = "unknown fields at every level"
		facts(1)
		auth.Extra = append(wire.RawVarintField(99, 7), wire.RawBytesField(100, []byte("junk"))...)
	case 18:
		what = "empty check (no queries), empty rule body, expression-only rule"
		facts(1)
		auth.Checks = append(auth.Checks, wire.Check{})
		auth.Rules = append(auth.Rules, wire.Rule{Head: pred(Q, one)}, wire.Rule{Head: pred(Q, one), Exprs: []wire.Expr{{val(wire.Term{Tag: wire.TBool, Bo: true})}}})
	case 19:
		what = "explosive join: 40 facts, 3-way cartesian rule"
		facts(40)
		auth.Rules = append(auth.Rules, wire.Rule{Head: pred(Q, vx, vy, wire.Term{Tag: wire.TVariable, U: 1029}), Body: []wire.Pred{pred(P, vx), pred(P, vy), pred(P, wire.Term{Tag: wire.TVariable, U: 1029})}})
	}
	return blocks, what
}

const c10NumStructural = 21

// c10Envelope applies envelope-level hostility to a validly signed token.
func c10Envelope(r *rand.Rand, t *wire.Token, k int) string {
	a := t.All()
	i := r.Intn(len(a))
	switch k {
	case 0:
		n := r.Intn(66)
		t.ProofKind, t.Proof = wire.ProofSecret, resize(t.Proof, n)
		return fmt.Sprintf("next secret of %d bytes", n)
	case 1:
		n := r.Intn(66)
		t.ProofKind, t.Proof = wire.ProofFinal, resize(t.Proof, n)
		return fmt.Sprintf("final signature of %d bytes", n)
	case 2:
		t.ProofKind, t.Proof = wire.ProofNone, nil
		return "proof without content"
	case 3:
		n := gen.Pick(r, []int{0, 31, 33, 64})
		a[i].Key = resize(a[i].Key, n)
		t.SetAll(a)
		return fmt.Sprintf("next key of %d bytes", n)
	case 4:
		n := gen.Pick(r, []int{0, 63, 65})
		a[i].Sig = resize(a[i].Sig, n)
		t.SetAll(a)
		return fmt.Sprintf("signature of %d bytes", n)
	case 5:
		a[i].Alg = gen.Pick(r, []uint64{1, 2, 1 << 31, math.MaxUint64})
		t.SetAll(a)
		return "algorithm number"
	case 6:
		a[i].HasAlg = false
		t.SetAll(a)
		return "next key without algorithm"
	case 7:
		a[i].HasKey = false
		t.SetAll(a)
		return "next key without key bytes"
	case 8:
		t.Extra = append(wire.RawVarintField(77, 1), wire.RawBytesField(78, []byte{1, 2, 3})...)
		a[i].Extra = wire.RawVarintField(9, 9)
		t.SetAll(a)
		return "unknown fields in the envelope"
	case 9:
		a[i].Block = append(append([]byte{}, a[i].Block...), 0xff)
		t.SetAll(a)
		return "trailing garbage in a block"
	}
	return ""
}

const c10NumEnvelope = 10

func c10Sign(c *core.C, blocks []*wire.Block) (*wire.Token, ed25519.PublicKey) {
	pub, priv := lib.KeyPair(c.Seed, fmt.Sprintf("c10-attacker-root-%d", c.Idx))
	raw := [][]byte{}
	for _, b := range blocks {
		raw = append(raw, b.Encode())
	}
	n := 0
	env, _ := wire.BuildToken(priv, raw, func() (ed25519.PublicKey, ed25519.PrivateKey) {
		n++
		return lib.KeyPair(c.Seed, fmt.Sprintf("c10-k-%d-%d", c.Idx, n))
	}, nil)
	return env, pub
}

var c10SampleBytes [][]byte

func c10Samples() [][]byte {
	if c10SampleBytes != nil {
		return c10SampleBytes
	}
	dir := os.Getenv("VERIF_REPO")
	if dir == "" {
		dir = "/repo"
	}
	files, _ := filepath.Glob(filepath.Join(dir, "samples/data/current/*.bc"))
	sort.Strings(files)
	for _, fn := range files {
		if b, err := os.ReadFile(fn); err == nil {
			c10SampleBytes = append(c10SampleBytes, b)
		}
	}
	return c10SampleBytes
}

// c10UseAfterTimeout: the deadline fires while a (hostile, slow) token program is being
// evaluated; the caller then goes on using the SAME authorizer (PrintWorld, Query, Authorize).
// The delay hook at the producer's send makes the evaluation outlast a 1 ms deadline for
// certain. In the -race build a leftover evaluation goroutine that still touches the world
// shows up as a race report; in the plain build its consequence (a panic in the caller) is
// what the panic monitor sees.
func c10UseAfterTimeout(c *core.C) {
	n := 30 + c.R.Intn(40)
	blocks := []ast.Block{{Facts: factsP(n), Rules: []ast.Rule{
		{Head: ast.P("q", vX), Body: []ast.Pred{ast.P("p", vX)}},
		{Head: ast.P("r", vX, ast.Str("tag")), Body: []ast.Pred{ast.P("p", vX)}, Exprs: []ast.Expr{{ast.OV(ast.Str("a")), ast.OV(ast.Str("b")), ast.OB(ast.BAdd), ast.OV(ast.Str("ab")), ast.OB(ast.BEqual)}}},
	}}}
	tok, err := buildScenarioToken(c.Seed, fmt.Sprintf("c10-uat-%d", c.Idx), blocks)
	if err != nil {
		c.Violate("build-refused", err.Error(), nil)
		return
	}
	if c.R.Intn(2) == 0 {
		if t2, err := tok.Reload(); err == nil {
			tok = t2
		}
	}
	datalog.VerifSetDelay("combine.send", 400*time.Microsecond)
	defer datalog.VerifSetDelay("combine.send", 0)
	desc := map[string]any{"kind": "use after timeout", "facts": n, "maxDuration": "1ms", "delay": "combine.send 400us"}
	timedOut := false
	pi := lib.Try(func() {
		a, err := tok.B.AuthorizerFor(biscuit.WithSingularRootPublicKey(tok.Pub), biscuit.WithWorldOptions(datalog.WithMaxDuration(time.Millisecond), datalog.WithMaxFacts(1000000), datalog.WithMaxIterations(1000)))
		if err != nil {
			return
		}
		a.AddPolicy(allowAll.Lib())
		aerr := a.Authorize()
		timedOut = errors.Is(aerr, datalog.ErrWorldRunLimitTimeout)
		stop := time.Now().Add(120 * time.Millisecond)
		for time.Now().Before(stop) {
			c.Eval(1)
			_ = a.PrintWorld()
			_, _ = a.Query(ast.Rule{Head: ast.P("out", vX), Body: []ast.Pred{ast.P("q", vX)}}.Lib())
			_ = a.PrintWorld()
		}
		_ = a.Authorize()
		_ = a.PrintWorld()
	})
	datalog.VerifSetDelay("combine.send", 0)
	if pi != nil {
		c.Violate("panic/"+pi.Site+"/use-after-timeout", "using the authorizer after Authorize returned a timeout panicked: "+pi.Msg, map[string]any{"desc": desc, "panic": pi})
	}
	if timedOut {
		c.Count("use_after_timeout_runs", 1)
		c.NT(fmt.Sprintf("use-after-timeout/%d", n))
	}
	if st, _, ok := quiesce(60 * time.Second); ok {
		for _, g := range st {
			c.Violate("stranded-goroutine/use-after-timeout/"+strandSite(g), "goroutine blocked forever after a timed-out authorization", map[string]any{"desc": desc, "goroutine": g.text})
		}
	}
	c.Sample(desc)
}

const c10RaceCases = 8

func c10Run(c *core.C) {
	if c.Idx >= c.Prop.NumCases(c.Tier)-c10RaceCases || c.Idx%97 == 5 {
		c10UseAfterTimeout(c)
		return
	}
	r := c.R
	hostile := c10HostileTerms(r)
	nStructured := 0
	nReached := 0
	run := func(kind string, what string, x []byte, signer ed25519.PublicKey, structured bool) {
		desc := func() any { return map[string]any{"kind": kind, "what": what, "bytes": len(x)} }
		t0 := time.Now()
		loaded, reached := c10Pipeline(c, x, signer, desc)
		if ms := int(time.Since(t0).Milliseconds()); ms > 500 {
			c.Count("slow_inputs_over_500ms", 1)
			c.Count("slow_ms:"+core.Head(what, 60), ms)
		}
		if structured {
			nStructured++
			c.Count("structured_inputs", 1)
			if reached {
				nReached++
				c.Count("structured_reached_evaluation", 1)
				c.NT(kind + "/" + what)
			}
		}
		if loaded {
			c.Count("inputs_loaded", 1)
		}
		c.Count("inputs:"+kind, 1)
	}
	// the four input kinds rotate so that every worker stride gets its share of the heavy ones
	mode := (c.Idx + c.Idx/16) % 4
	switch mode {
	case 0, 1:
		// hostile values x placements, validly signed by an attacker root
		for j := 0; j < 4; j++ {
			blocks, what := c10SetAlgebra((c.Idx*4 + j) % c10NumSetAlgebra())
			env, pub := c10Sign(c, blocks)
			run("hostile-value", what, env.Encode(), pub, true)
		}
		for rep := 0; rep < 12; rep++ {
			h := hostile[r.Intn(len(hostile))]
			placement := r.Intn(8)
			op := r.Intn(ast.NumBinary)
			nameIdx := uint64(1024)
			if r.Intn(6) == 0 {
				nameIdx = gen.Pick(r, c10Indexes)
			}
			_, blocks, what := c10Program(h, placement, op, nameIdx)
			env, pub := c10Sign(c, blocks)
			what = fmt.Sprintf("%s; h=%s; name index %d", what, core.Head(h.String(), 80), nameIdx)
			if rep == 0 {
				c.Sample(map[string]any{"kind": "hostile value, validly signed by an attacker root", "what": what})
			}
			run("hostile-value", what, env.Encode(), pub, true)
		}
	case 2:
		// structural hostility and envelope hostility
		for rep := 0; rep < 6; rep++ {
			k := (c.Idx/4*6 + rep) % (c10NumStructural + c10NumEnvelope)
			if k == 3 {
				// every ill-formed expression in every placement, one token each
				for sel := 0; sel < c10NumBadExprs; sel++ {
					c10BadSel = sel
					blocks, what := c10Structural(r, k)
					c10BadSel = -1
					env, pub := c10Sign(c, blocks)
					run("structural", what, env.Encode(), pub, true)
					c.Count("ill_formed_expression_tokens", 1)
				}
			} else if k < c10NumStructural {
				blocks, what := c10Structural(r, k)
				env, pub := c10Sign(c, blocks)
				if rep == 0 {
					c.Sample(map[string]any{"kind": "structural hostility", "what": what})
				}
				run("structural", what, env.Encode(), pub, true)
			} else {
				_, blocks, _ := c10Program(wire.Term{Tag: wire.TInteger, I: 1}, r.Intn(6), 0, 1024)
				env, pub := c10Sign(c, blocks)
				what := c10Envelope(r, env, k-c10NumStructural)
				run("envelope", what, env.Encode(), pub, false)
			}
		}
	default:
		// random bytes, bit flips / truncations / splices of valid tokens (samples and own)
		samples := c10Samples()
		for rep := 0; rep < 25; rep++ {
			var x []byte
			what := ""
			switch r.Intn(5) {
			case 0:
				x = make([]byte, r.Intn(200))
				r.Read(x)
				what = "random bytes"
			case 1:
				if len(samples) == 0 {
					continue
				}
				s := samples[r.Intn(len(samples))]
				x = flipBit(s, r.Intn(len(s)*8))
				for k := r.Intn(3); k > 0; k-- {
					x = flipBit(x, r.Intn(len(x)*8))
				}
				what = "bit flips in a sample token"
			case 2:
				if len(samples) == 0 {
					continue
				}
				s := samples[r.Intn(len(samples))]
				x = append([]byte{}, s[:r.Intn(len(s))]...)
				what = "truncated sample token"
			case 3:
				if len(samples) < 2 {
					continue
				}
				a, b := samples[r.Intn(len(samples))], samples[r.Intn(len(samples))]
				x = append(append([]byte{}, a[:r.Intn(len(a))]...), b[r.Intn(len(b)):]...)
				what = "splice of two sample tokens"
			default:
				_, blocks, _ := c10Program(hostile[r.Intn(len(hostile))], r.Intn(8), r.Intn(ast.NumBinary), 1024)
				env, _ := c10Sign(c, blocks)
				s := env.Encode()
				x = flipBit(s, r.Intn(len(s)*8))
				what = "bit flip in a hostile signed token"
			}
			pub, _ := lib.KeyPair(c.Seed, "c10-nobody")
			run("byte-level", what, x, pub, false)
		}
	}
}

func init() {
	core.Register(&core.Prop{
		ID:    "C10",
		Level: "exploration",
		Rule: "each input goes through the whole pipeline under recover, in isolated worker processes whose journal attributes a process death (panic on a library goroutine) to the input: Unmarshal -> String, Code, Checks, GetContext, BlockCount, RootKeyID, RevocationIds, Serialize, GetBlockID -> AuthorizerFor (signer root, random key, key map), Authorizer -> AddFact/Rule/Check/Policy, SerializePolicies, Authorize x2, Query, PrintWorld, Reset, Authorize -> CreateBlock/Append/Seal (+ re-verify) -> LoadPolicies on the same bytes. Inputs: (a) schema-valid tokens written by the independent writer R3 and VALIDLY SIGNED with an attacker root so that evaluation is reached, carrying one hostile value (symbol / variable indexes 0,27,28,1023,1024,last+1,2^31,2^32,2^63-1,2^63,2^64-1; boundary ints and dates; 64 KiB byte arrays; sets of every kind incl. byte arrays, duplicates, empty, nested, mixed, 1000 elements; empty oneofs) in one of 8 placements (authority fact, later-block fact, matching body constant, repeated variable, rule head, check constant, operand of every binary / unary operator); (b) 20 structural hostilities (unbound head variables with 0/1/50 matches, malformed and 1001-deep expressions, operators without kind, unknown enum numbers, invalid/huge regexes, string concatenation bombs, 3000 symbols, repeated symbols, variables in facts, missing required fields, unknown fields, explosive joins) and 10 envelope hostilities (secret/seal lengths 0..65, key/signature lengths, algorithm numbers, missing fields); (c) random bytes, bit flips, truncations and splices of sample tokens. Default 2 ms limits are kept. " +
			"Non-trivial = distinct structured inputs that pass Unmarshal and AuthorizerFor (evaluation reached).",
		Assumptions: []string{"keys presented are 32 bytes (the property's domain)", "worker address space is capped; an out-of-memory death counts only if it reproduces"},
		NumCases: func(tier string) int {
			if tier == "thorough" {
				return 72000
			}
			return 1600
		},
		// the last cases (use after timeout) run in the -race build
		RaceFrom:     func(tier string) int { return map[string]int{"quick": 1600, "thorough": 72000}[tier] - c10RaceCases },
		Run:          c10Run,
		CaseTimeoutS: 300,
		Floor: func(a *core.Agg) []string {
			u := []string{}
			s, rch := a.Cnt["structured_inputs"], a.Cnt["structured_reached_evaluation"]
			if s == 0 || rch*100 < s*30 {
				u = append(u, fmt.Sprintf("structured inputs reaching evaluation %d of %d (< 30%%)", rch, s))
			}
			if a.Cnt["use_after_timeout_runs"] < 8 {
				u = append(u, fmt.Sprintf("use-after-timeout runs that really timed out %d < 8", a.Cnt["use_after_timeout_runs"]))
			}
			if a.Cnt["inputs:byte-level"] < 1000 {
				u = append(u, "byte-level inputs < 1000")
			}
			return u
		},
	})
}
