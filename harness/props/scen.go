package props

import (
	"fmt"
	"math/rand"
	"strings"

	"verif/harness/ast"
	"verif/harness/core"
	"verif/harness/gen"
	"verif/harness/ref"
)

// Shared scenario helpers for the relational authorization properties (C02 C03 C12 C13 C18).

var scenOpts = gen.BlockOpts{MaxFacts: 5, MaxRules: 2, MaxChecks: 2, Rule: gen.RuleOpts{PConst: 0.35, PExpr: 0.3, PErr: 0, MaxBody: 2}}

// askedAtoms collects the body atoms of every policy and check of the scenario:
// the facts a hostile block would like to state or derive.
func askedAtoms(blocks []ast.Block, a ast.AuthContent) []ast.Pred {
	out := []ast.Pred{}
	for _, p := range a.Policies {
		for _, q := range p.Queries {
			out = append(out, q.Body...)
		}
	}
	for _, c := range a.Checks {
		for _, q := range c.Queries {
			out = append(out, q.Body...)
		}
	}
	for _, b := range blocks {
		for _, c := range b.Checks {
			for _, q := range c.Queries {
				out = append(out, q.Body...)
			}
		}
	}
	return out
}

// groundAtom replaces the variables of an atom by universe constants of the right column type
// (falls back to strings when the predicate is not in the universe).
func groundAtom(r *rand.Rand, u *gen.Universe, p ast.Pred) ast.Pred {
	var sig *gen.PredSig
	for i := range u.Preds {
		if u.Preds[i].Name == p.Name && len(u.Preds[i].Cols) == len(p.Terms) {
			sig = &u.Preds[i]
		}
	}
	out := ast.Pred{Name: p.Name, Terms: make([]ast.Term, len(p.Terms))}
	bind := map[string]ast.Term{}
	for i, t := range p.Terms {
		if t.K != ast.KVar {
			out.Terms[i] = t
			continue
		}
		if b, ok := bind[t.S]; ok {
			out.Terms[i] = b
			continue
		}
		var v ast.Term
		if sig != nil {
			v = u.Const(r, sig.Cols[i])
		} else {
			v = ast.Str(gen.Pick(r, u.Str))
		}
		bind[t.S] = v
		out.Terms[i] = v
	}
	return out
}

// adversarialBlock is what a hostile holder would append through the builder API: facts that
// mimic authority facts, rules whose heads are exactly the predicates that policies and checks
// query (derived from authorizer / authority facts), always-true checks, context.
// withChecks=false gives the check-free variant used by C03.
func adversarialBlock(r *rand.Rand, u *gen.Universe, blocks []ast.Block, a ast.AuthContent, withChecks bool) (ast.Block, bool) {
	asked := askedAtoms(blocks, a)
	b := ast.Block{}
	targeted := false
	seen := map[string]bool{}
	for _, p := range asked {
		if r.Intn(3) == 0 {
			continue
		}
		g := groundAtom(r, u, p)
		if !seen[g.Key()] {
			seen[g.Key()] = true
			b.Facts = append(b.Facts, g)
			targeted = true
		}
	}
	// rules re-deriving asked predicates from facts that exist at authority level
	known := append(append([]ast.Pred{}, a.Facts...), blocks[0].Facts...)
	for i := 0; i < 2 && len(asked) > 0 && len(known) > 0; i++ {
		head := gen.Pick(r, asked)
		src := gen.Pick(r, known)
		body := ast.Pred{Name: src.Name, Terms: make([]ast.Term, len(src.Terms))}
		vars := []string{}
		for j, t := range src.Terms {
			if r.Intn(2) == 0 {
				n := fmt.Sprintf("a%d", j)
				body.Terms[j] = ast.Var(n)
				vars = append(vars, n)
			} else {
				body.Terms[j] = t
			}
		}
		h := groundAtom(r, u, head)
		// re-open some head positions with body variables (keeps the rule range-restricted)
		for j := range h.Terms {
			if len(vars) > 0 && r.Intn(3) == 0 && head.Terms[j].K == ast.KVar {
				// only when the kinds agree: take the variable of a body position holding the same kind
				for k, bt := range src.Terms {
					if body.Terms[k].K == ast.KVar && bt.K == h.Terms[j].K {
						h.Terms[j] = body.Terms[k]
						break
					}
				}
			}
		}
		b.Rules = append(b.Rules, ast.Rule{Head: h, Body: []ast.Pred{body}})
		targeted = true
	}
	if r.Intn(3) == 0 {
		b.Facts = append(b.Facts, u.Fact(r))
	}
	if withChecks && r.Intn(2) == 0 {
		b.Checks = append(b.Checks, ast.Check{Queries: []ast.Rule{{Head: ast.P("query"), Exprs: []ast.Expr{{ast.OV(ast.Bool(true))}}}}})
	}
	if withChecks && r.Intn(3) == 0 {
		b.Checks = append(b.Checks, u.CheckFrom(r, scenOpts.Rule, append(known, b.Facts...)))
	}
	if r.Intn(4) == 0 {
		b.Context = "attenuated"
	}
	return b, targeted
}

// mergeIntoAuthority models a LEAK: what the outcome would be if the extra block's facts and
// rules were visible at authority level.
func mergeIntoAuthority(blocks []ast.Block, extra ast.Block) []ast.Block {
	out := append([]ast.Block{}, blocks...)
	a := out[0]
	a.Facts = append(append([]ast.Pred{}, a.Facts...), extra.Facts...)
	a.Rules = append(append([]ast.Rule{}, a.Rules...), extra.Rules...)
	out[0] = a
	return out
}

// probeAnswers evaluates the probes on the reference closure.
func probeAnswers(d ref.Decision, probes []ast.Rule) [][]string {
	out := [][]string{}
	for _, q := range probes {
		ans, _ := ref.Answers(q, d.Closure, nil)
		out = append(out, ans.Keys())
	}
	return out
}

// insertBlock returns blocks with b inserted at position p (1 <= p <= len(blocks)).
func insertBlock(blocks []ast.Block, b ast.Block, p int) []ast.Block {
	out := append([]ast.Block{}, blocks[:p]...)
	out = append(out, b)
	return append(out, blocks[p:]...)
}

// countBig records which big shape (gen/big.go) a scenario carries, by family.
func countBig(c *core.C, s *gen.Scenario) {
	if s.Big != "" {
		c.Count("big_shape/"+strings.SplitN(s.Big, "-", 2)[0], 1)
		c.NT("big/" + s.Big)
	}
}
