package props

import (
	"crypto/ed25519"
	crand "crypto/rand"
	"encoding/hex"
	"fmt"
	"io"

	biscuit "github.com/biscuit-auth/biscuit-go/v2"
	"github.com/biscuit-auth/biscuit-go/v2/datalog"

	"verif/harness/ast"
	"verif/harness/core"
	"verif/harness/gen"
	"verif/harness/lib"
	"verif/harness/wire"
)

// C09 - sealing freezes a token without changing what it authorizes.
// Oracle: sealed / unsealed twin comparison over the panel + error presence for Append / Seal
// on sealed tokens + R3 chain verdict on mutated sealed envelopes.

// c09CustomSymbols: a token built over a custom base symbol table (WithSymbols), attenuated,
// then sealed: the sealed token used IN MEMORY prints and authorizes like its source, and both
// survive a round trip through an Unmarshaler that knows the base table.
func c09CustomSymbols(c *core.C) {
	r := c.R
	base := &datalog.SymbolTable{}
	names := []string{"tenant", "acme", "role", "auditor"}
	for _, n := range names[:2+r.Intn(3)] {
		base.Insert(n)
	}
	_, priv := lib.KeyPair(c.Seed, fmt.Sprintf("c09-custom-%d", c.Idx))
	pub := priv.Public().(ed25519.PublicKey)
	rng := lib.NewDetRand(c.Seed, fmt.Sprintf("c09-custom-rng-%d", c.Idx))
	var src, sealed *biscuit.Biscuit
	var err error
	pi := lib.Try(func() {
		bld := biscuit.NewBuilder(priv, biscuit.WithRNG(rng), biscuit.WithSymbols(base))
		_ = bld.AddAuthorityFact(ast.P("tenant", ast.Str("acme")).LibFact())
		_ = bld.AddAuthorityFact(ast.P("role", ast.Str("auditor"), ast.Str("fresh_one")).LibFact())
		_ = bld.AddAuthorityCheck(ast.Check{Queries: []ast.Rule{{Head: ast.P("query"), Body: []ast.Pred{ast.P("tenant", ast.Var("t"))}}}}.Lib())
		if src, err = bld.Build(); err != nil {
			return
		}
		for k, n := 0, r.Intn(3); k < n; k++ {
			bb := src.CreateBlock()
			_ = bb.AddFact(ast.P(fmt.Sprintf("added_%d", k), ast.Str(fmt.Sprintf("fresh_%d", k)), ast.Str("acme")).LibFact())
			_ = bb.AddCheck(ast.Check{Queries: []ast.Rule{{Head: ast.P("query"), Body: []ast.Pred{ast.P("role", ast.Str("auditor"), ast.Var("x"))}}}}.Lib())
			if src, err = src.Append(rng, bb.Build()); err != nil {
				return
			}
		}
		sealed, err = src.Seal(rng)
	})
	if pi != nil {
		c.Violate("custom-symbols-panic/"+pi.Site, pi.Msg, nil)
		return
	}
	if err != nil {
		c.Violate("derivation-refused/custom-symbols", err.Error(), nil)
		return
	}
	ask := func(p ast.Pred) []ast.Rule { return []ast.Rule{{Head: ast.P("query"), Body: []ast.Pred{p}}} }
	auths := []ast.AuthContent{
		{Policies: []ast.Policy{allowAll}},
		{Policies: []ast.Policy{{Allow: true, Queries: ask(ast.P("tenant", ast.Str("acme")))}}},
		{Checks: []ast.Check{{Queries: ask(ast.P("role", ast.Str("auditor"), ast.Str("fresh_one")))}}, Policies: []ast.Policy{allowAll}},
		{Checks: []ast.Check{{Queries: ask(ast.P("tenant", ast.Str("other")))}}, Policies: []ast.Policy{allowAll}},
	}
	probes := []ast.Rule{{Head: ast.P("probe_tenant", ast.Var("t")), Body: []ast.Pred{ast.P("tenant", ast.Var("t"))}}, {Head: ast.P("probe_role", ast.Var("a"), ast.Var("b")), Body: []ast.Pred{ast.P("role", ast.Var("a"), ast.Var("b"))}}}
	view := func(b *biscuit.Biscuit) string {
		out := fmt.Sprint(b.Code())
		for _, a := range auths {
			out += " | " + lib.Observe(b, pub, a, probes).Key()
		}
		return out
	}
	reload := func(b *biscuit.Biscuit) (*biscuit.Biscuit, error) {
		ser, err := b.Serialize()
		if err != nil {
			return nil, err
		}
		return (&biscuit.Unmarshaler{Symbols: base.Clone()}).Unmarshal(ser)
	}
	var vs, vsealed, vsr, vsealedr string
	pi = lib.Try(func() {
		vs, vsealed = view(src), view(sealed)
		if b, err := reload(src); err == nil {
			vsr = view(b)
		} else {
			vsr = "reload: " + err.Error()
		}
		if b, err := reload(sealed); err == nil {
			vsealedr = view(b)
		} else {
			vsealedr = "reload: " + err.Error()
		}
	})
	c.Eval(4)
	if pi != nil {
		c.Violate("custom-symbols-panic/"+pi.Site, pi.Msg, nil)
		return
	}
	desc := map[string]any{"base_symbols": len(*base), "source": vs, "sealed": vsealed, "source_reloaded": vsr, "sealed_reloaded": vsealedr}
	if vsealed != vs {
		c.Violate("sealing-changes-behaviour/custom-base-symbols/in-memory", "the sealed token in memory prints or authorizes differently from its source", desc)
	}
	if vsr != vs || vsealedr != vs {
		c.Violate("sealing-changes-behaviour/custom-base-symbols/re-loaded", "after a round trip through an Unmarshaler with the base table the source or the sealed token differs", desc)
	}
	c.Count("custom_base_symbol_tokens", 1)
}

func c09Run(c *core.C) {
	r := c.R
	if c.Idx%4 == 1 {
		c09CustomSymbols(c)
	}
	if c.Idx%4 == 3 {
		// hostile source tokens (a block using a symbol index nothing defines yet, completed by a
		// later block): the sealed copy used in memory authorizes like its source (shared with C02)
		ds := gen.NewScenario(r, 2, scenOpts)
		countBig(c, ds)
		if dt, err := buildScenarioToken(c.Seed, fmt.Sprintf("c09-dang-%d", c.Idx), ds.Blocks); err == nil {
			c02Dangling(c, dt, ds.Auth)
		}
	}
	f := newFamily(r, c.Seed, fmt.Sprintf("c09-%d", c.Idx), 4)
	mk := func() ast.Block {
		return f.U.Block(r, gen.BlockOpts{MaxFacts: 4, MaxRules: 1, MaxChecks: 2, Rule: gen.RuleOpts{PConst: 0.35, PExpr: 0.3, MaxBody: 2}})
	}
	var keyID *uint32
	if r.Intn(3) == 0 {
		keyID = u32(gen.Pick(r, []uint32{0, 9, 0xffffffff}))
	}
	src, err := f.Root(r, c.Seed, fmt.Sprintf("c09-%d", c.Idx), mk(), keyID)
	if err != nil {
		c.Violate("build-refused", err.Error(), nil)
		return
	}
	// make the panel ask for things the token has
	known := []ast.Pred{}
	nb := r.Intn(5)
	cur := 0
	for i := 0; i < nb; i++ {
		l, err := f.Append(cur, mk())
		if err != nil {
			c.Violate("derivation-refused/append", err.Error(), map[string]any{"ops": f.Ops})
			return
		}
		_ = l
		cur = len(f.Tokens) - 1
		if r.Intn(3) == 0 {
			if _, err := f.Reload(cur); err == nil {
				cur = len(f.Tokens) - 1
			}
		}
	}
	src = f.Tokens[cur]
	known = append(known, src.T.Blocks[0].Facts...)
	f.Panel = newPanel(r, f.U, 4, known)
	sealedL, err := f.Seal(cur)
	if err != nil {
		c.Violate("seal-refused", "Seal failed on an unsealed library token: "+err.Error(), map[string]any{"ops": f.Ops})
		return
	}
	twins := []*Live{sealedL}
	for k, n := 0, r.Intn(3); k < n; k++ {
		l, err := f.Reload(len(f.Tokens) - 1)
		if err != nil {
			c.Violate("sealed-token-does-not-reload", err.Error(), map[string]any{"ops": f.Ops})
			return
		}
		twins = append(twins, l)
	}
	want := takeSnapshot(src.T.B, src.T.Pub, f.Panel)
	classes := map[string]bool{}
	for _, b := range want.Behaviour {
		classes[b[:4]] = true
	}
	for ti, tw := range twins {
		c.Eval(1)
		desc := map[string]any{"ops": f.Ops, "twin": ti, "source_blocks": gen.Texts(src.T.Blocks)}
		got := takeSnapshot(tw.T.B, tw.T.Pub, f.Panel)
		if got.Err != "" {
			c.Violate("sealed-snapshot-error", got.Err, desc)
			continue
		}
		if core.JSON(got.Behaviour) != core.JSON(want.Behaviour) {
			c.Violate("sealing-changes-authorization", "sealed token and its source differ over the authorizer panel", map[string]any{"desc": desc, "source": want.Behaviour, "sealed": got.Behaviour})
		}
		if core.JSON(got.RevIDs) != core.JSON(want.RevIDs) {
			c.Violate("sealing-changes-revocation-ids", "", map[string]any{"desc": desc, "source": want.RevIDs, "sealed": got.RevIDs})
		}
		if got.KeyID != want.KeyID {
			c.Violate("sealing-changes-key-id", got.KeyID+" vs "+want.KeyID, desc)
		}
		if core.JSON(got.Code) != core.JSON(want.Code) {
			c.Violate("sealing-changes-printed-blocks", "", desc)
		}
		// verifies under the same root
		if _, err := tw.T.B.AuthorizerFor(biscuit.WithSingularRootPublicKey(src.T.Pub)); err != nil {
			c.Violate("sealed-token-rejected", "the sealed token does not verify under the root that accepts its source: "+err.Error(), desc)
		}
		// can be neither extended nor sealed again
		var aerr, serr error
		var at, st *biscuit.Biscuit
		pi := lib.Try(func() {
			bb := tw.T.B.CreateBlock()
			_ = bb.AddFact(ast.P("added", ast.Str("x")).LibFact())
			at, aerr = tw.T.B.Append(crand.Reader, bb.Build())
			st, serr = tw.T.B.Seal(crand.Reader)
		})
		if pi != nil {
			c.Violate("sealed-op-panic/"+pi.Site, pi.Msg, desc)
			continue
		}
		if aerr == nil || at != nil {
			c.Violate("append-to-sealed-succeeded", "Append returned no error on a sealed token", desc)
		}
		if serr == nil || st != nil {
			c.Violate("seal-of-sealed-succeeded", "Seal returned no error on a sealed token", desc)
		}
		c.Count("twins", 1)
	}
	if len(classes) >= 2 {
		c.NT("twin/" + want.Ser)
		c.Count("twins_with_varied_panel", 1)
	}
	// mutated sealed envelopes are decided by the independent chain verifier
	ser, _ := sealedL.T.B.Serialize()
	env, err := wire.Decode(ser)
	if err != nil || env.ProofKind != wire.ProofFinal {
		c.Violate("sealed-token-wire", fmt.Sprintf("sealed token does not carry a final signature on the wire (%v)", err), map[string]any{"ops": f.Ops})
		return
	}
	seen := map[string]bool{}
	keys := map[string]ed25519.PublicKey{"true-root": src.T.Pub}
	others := []*wire.Token{}
	for _, l := range f.Tokens {
		if l != sealedL {
			if s2, err := l.T.B.Serialize(); err == nil {
				if e2, err := wire.Decode(s2); err == nil {
					others = append(others, e2)
				}
			}
		}
	}
	for _, m := range chainMutants(r, c.Seed+int64(c.Idx), env, others, nil) {
		c01Present(c, m, "sealed token", keys, nil, seen)
	}
	// targeted: every byte of the seal, last signature, last key (one bit each)
	all := env.All()
	last := len(all) - 1
	for i := 0; i < 64; i++ {
		t := env.Clone()
		t.Proof = flipBit(t.Proof, i*8+r.Intn(8))
		c01Present(c, Mutant{Class: "seal-byte-flip", Bytes: t.Encode()}, "sealed token", keys, nil, seen)
		t = env.Clone()
		a := t.All()
		a[last].Sig = flipBit(a[last].Sig, i*8+r.Intn(8))
		t.SetAll(a)
		c01Present(c, Mutant{Class: "last-signature-byte-flip", Bytes: t.Encode()}, "sealed token", keys, nil, seen)
		if i < 32 {
			t = env.Clone()
			a = t.All()
			a[last].Key = flipBit(a[last].Key, i*8+r.Intn(8))
			t.SetAll(a)
			c01Present(c, Mutant{Class: "last-key-byte-flip", Bytes: t.Encode()}, "sealed token", keys, nil, seen)
		}
	}
	c.Sample(map[string]any{"kind": "sealed twin", "ops": f.Ops, "blocks": len(src.T.Blocks), "panel_classes": want.Behaviour, "sealed_hex_prefix": hex.EncodeToString(ser[:min(24, len(ser))])})
}

// ---- C17 ---------------------------------------------------------------------------------

// shortReader delivers at most one byte per Read call (allowed by io.Reader).
type shortReader struct{ src io.Reader }

func (s *shortReader) Read(p []byte) (int, error) {
	if len(p) == 0 {
		return 0, nil
	}
	return s.src.Read(p[:1])
}

// counterSource is a stream of 32-byte big-endian counters (every 32-byte draw is distinct,
// but the leading bytes of consecutive draws are equal) handed out at most 3 bytes per Read:
// key material assembled from less than a full draw repeats.
type counterSource struct {
	n   uint64
	buf []byte
}

func (s *counterSource) Read(p []byte) (int, error) {
	if len(p) == 0 {
		return 0, nil
	}
	if len(s.buf) == 0 {
		s.n++
		s.buf = make([]byte, 32)
		for i := 0; i < 8; i++ {
			s.buf[31-i] = byte(s.n >> (8 * i))
		}
	}
	n := copy(p[:min(3, len(p))], s.buf)
	s.buf = s.buf[n:]
	return n, nil
}

func c17Run(c *core.C) {
	r := c.R
	useCrypto := c.Idx%8 == 0
	idToEv := map[string]string{}
	evToID := map[string]string{}
	samePairs := 0
	// identical-content blocks everywhere
	fixed := []ast.Block{
		{Facts: []ast.Pred{ast.P("right", ast.Str("file1"), ast.Str("read"))}},
		{Checks: []ast.Check{{Queries: []ast.Rule{{Head: ast.P("query"), Body: []ast.Pred{ast.P("resource", ast.Var("r"))}}}}}},
		{},
	}
	contentOf := map[string]string{} // event -> content key
	for fam := 0; fam < 3; fam++ {
		f := newFamily(r, c.Seed, fmt.Sprintf("c17-%d-%d", c.Idx, fam), 0)
		if useCrypto {
			f.rng = crand.Reader
		}
		if c.Idx%8 == 1 {
			// a source that legally returns short reads (one byte per Read): key material must
			// still be 32 fresh bytes, so identifiers stay unique
			f.rng = &shortReader{src: f.rng}
			c.Count("short_read_source_cases", 1)
		}
		if c.Idx%8 == 2 {
			// distinct 32-byte draws that share their leading bytes, delivered in short reads
			f.rng = &counterSource{n: uint64(fam) << 32}
			c.Count("counter_source_cases", 1)
		}
		mk := func() ast.Block { return fixed[r.Intn(len(fixed))] }
		// same root for all families of the case: identical content + identical signer
		_, priv := lib.KeyPair(c.Seed, fmt.Sprintf("c17-root-%d", c.Idx))
		t, err := lib.Build(priv, f.rng, []ast.Block{mk()}, nil)
		if err != nil {
			c.Violate("build-refused", err.Error(), nil)
			return
		}
		f.Tokens = append(f.Tokens, &Live{T: t, Prov: []int{f.ev()}, Origin: "build"})
		f.Ops = append(f.Ops, "build -> #0")
		parentOf := map[int]int{0: -1}
		if c.Idx%4 == 3 {
			// ONE root builder asked for a token twice (nothing added in between): two tokens,
			// signed at different times with fresh randomness, hence two identifiers
			content := mk()
			bld := biscuit.NewBuilder(priv, biscuit.WithRNG(f.rng))
			if acc, err := lib.FillAuthority(bld, content); err == nil {
				for k := 0; k < 2; k++ {
					var b *biscuit.Biscuit
					var berr error
					if pi := lib.Try(func() { b, berr = bld.Build() }); pi != nil {
						c.Violate("build-panic/"+pi.Site, pi.Msg, nil)
						break
					}
					if berr != nil {
						c.Count("root_builder_rebuild_refused", 1)
						break
					}
					f.Tokens = append(f.Tokens, &Live{T: &lib.Token{B: b, Blocks: []ast.Block{acc}, Pub: t.Pub, Priv: priv}, Prov: []int{f.ev()}, Origin: "build"})
					parentOf[len(f.Tokens)-1] = -1
					f.Ops = append(f.Ops, fmt.Sprintf("build number %d on one root builder -> #%d", k+1, len(f.Tokens)-1))
					c.Count("same_builder_builds", 1)
				}
			}
		}
		if c.Idx%16 == 5 && c.Idx < 4000 && fam == 0 { // (bounded: 250 long chains in the thorough tier)
			// one long straight chain (16 ... 129 attenuation blocks): counts beyond any buffer sized for "a few blocks"
			want := []int{16, 17, 32, 33, 64, 65, 128, 129}[c.Idx/16%8]
			for p := 0; len(f.Tokens[p].T.Blocks)-1 < want; {
				before := len(f.Tokens)
				if _, err := f.Append(p, mk()); err != nil {
					c.Violate("derivation-refused", err.Error(), map[string]any{"ops": f.Ops})
					return
				}
				parentOf[before] = p
				p = before
			}
			c.Count("long_chain_families", 1)
		}
		lastParent := 0
		for step, nSteps := 0, 8+r.Intn(8); step < nSteps; step++ {
			// half of the time extend the longest chain (deep tokens), one time in five fork the
			// parent used last (siblings), otherwise any live token
			p := r.Intn(len(f.Tokens))
			switch k := r.Intn(10); {
			case k < 5:
				p = len(f.Tokens) - 1
				for q := len(f.Tokens) - 1; q >= 0; q-- {
					if !f.Tokens[q].T.Sealed && len(f.Tokens[q].T.Blocks) >= len(f.Tokens[p].T.Blocks) {
						p = q
						break
					}
				}
			case k < 7:
				p = lastParent
			}
			lastParent = p
			var err error
			before := len(f.Tokens)
			switch k := r.Intn(10); {
			case k < 6:
				if f.Tokens[p].T.Sealed {
					continue
				}
				_, err = f.Append(p, mk())
			case k < 8:
				if f.Tokens[p].T.Sealed {
					continue
				}
				_, err = f.Seal(p)
			default:
				_, err = f.Reload(p)
			}
			if err != nil {
				c.Violate("derivation-refused", err.Error(), map[string]any{"ops": f.Ops})
				return
			}
			if len(f.Tokens) > before {
				parentOf[before] = p
			}
		}
		for ti, l := range f.Tokens {
			c.Eval(1)
			desc := map[string]any{"ops": f.Ops, "token": ti, "crypto_rand": useCrypto}
			var ids [][]byte
			pi := lib.Try(func() { ids = l.T.B.RevocationIds() })
			if pi != nil {
				c.Violate("revocation-ids-panic/"+pi.Site, pi.Msg, desc)
				continue
			}
			if len(ids) != len(l.T.Blocks) {
				c.Violate("revocation-id-count", fmt.Sprintf("%d identifiers for %d blocks", len(ids), len(l.T.Blocks)), desc)
				continue
			}
			// each identifier is a value of its own: a caller that appends a namespace to one of
			// them (append(id, ...)) changes neither its neighbours nor the token
			if got := l.T.B.RevocationIds(); len(got) == len(ids) {
				before := make([]string, len(got))
				for k := range got {
					before[k] = hex.EncodeToString(got[k])
				}
				for k := range got {
					_ = append(got[k], 0xEE, 0xEE, 0xEE)
				}
				again := l.T.B.RevocationIds()
				for k := range got {
					if hex.EncodeToString(got[k]) != before[k] || (k < len(again) && hex.EncodeToString(again[k]) != before[k]) {
						c.Violate("revocation-ids-share-memory", fmt.Sprintf("appending to a returned identifier changed identifier %d", k), desc)
						break
					}
				}
			}
			if l.T.B.BlockCount()+1 != len(ids) {
				c.Violate("revocation-id-count", fmt.Sprintf("%d identifiers, BlockCount()+1 = %d", len(ids), l.T.B.BlockCount()+1), desc)
			}
			// prefix of the parent's
			if p := parentOf[ti]; p >= 0 {
				pids := f.Tokens[p].T.B.RevocationIds()
				for k := range pids {
					if k >= len(ids) || hex.EncodeToString(pids[k]) != hex.EncodeToString(ids[k]) {
						c.Violate("revocation-ids-not-prefix-of-parent", fmt.Sprintf("identifier %d of token #%d differs from its parent #%d", k, ti, p), desc)
						break
					}
				}
			}
			// equals the signature an independent decoder finds
			ser, _ := l.T.B.Serialize()
			env, err := wire.Decode(ser)
			if err != nil {
				c.Violate("undecodable", err.Error(), desc)
				continue
			}
			all := env.All()
			for k, id := range ids {
				h := hex.EncodeToString(id)
				if k < len(all) && hex.EncodeToString(all[k].Sig) != h {
					c.Violate("revocation-id-not-signature", fmt.Sprintf("identifier %d is not the signature found on block %d", k, k), desc)
				}
				ev := fmt.Sprintf("f%d-e%d", fam, l.Prov[k])
				contentOf[ev] = l.T.Blocks[k].Key()
				if old, ok := idToEv[h]; ok && old != ev {
					c.Violate("revocation-id-collision", fmt.Sprintf("two different signing events (%s, %s) share identifier %s", old, ev, h[:16]), desc)
				}
				idToEv[h] = ev
				if old, ok := evToID[ev]; ok && old != h {
					c.Violate("revocation-id-unstable", fmt.Sprintf("signing event %s shows two identifiers", ev), desc)
				}
				evToID[ev] = h
			}
		}
		if fam == 0 {
			c.Sample(map[string]any{"kind": "revocation history", "ops": f.Ops, "crypto_rand": useCrypto})
		}
	}
	// pairs of identical-content blocks from different signing events
	byContent := map[string]int{}
	for _, k := range contentOf {
		byContent[k]++
	}
	for _, n := range byContent {
		samePairs += n * (n - 1) / 2
	}
	c.Count("identical_content_pairs", samePairs)
	c.Count("signing_events", len(evToID))
	c.NT(fmt.Sprintf("case-%d-events-%d", c.Idx, len(evToID)))
	if useCrypto {
		c.Count("crypto_rand_cases", 1)
	}
}

func init() {
	core.Register(&core.Prop{
		ID:    "C09",
		Level: "exploration",
		Rule: "each case: a token with 0-4 appended blocks (re-loaded at random points, optional key id) is sealed and the sealed token re-loaded 0-2 times; every sealed twin is compared with its unsealed source over a 4-entry authorizer panel generated from the token's facts (class + probe answers), revocation ids, key id and printed blocks; it must verify under the source's root; Append and Seal on it must return an error and no token. The sealed envelope then gets the whole mutation catalogue of C01 plus one bit flipped in EVERY byte of the seal signature, of the last block signature and of the last announced key; every mutant is decided by the independent chain verifier R3. " +
			"Non-trivial = twins whose panel shows >=2 different outcome classes (distinct by sealed bytes); distinct decided mutants.",
		Assumptions: []string{"as C01: ed25519 trusted, undecodable mutants only carry the no-panic obligation"},
		NumCases: func(tier string) int {
			if tier == "thorough" {
				return 16000
			}
			return 320
		},
		Run: c09Run,
		Floor: func(a *core.Agg) []string {
			u := []string{}
			if a.Cnt["twins_with_varied_panel"] < 40 {
				u = append(u, fmt.Sprintf("twins with varied panel %d < 40", a.Cnt["twins_with_varied_panel"]))
			}
			for _, cl := range []string{"seal-byte-flip", "last-signature-byte-flip", "last-key-byte-flip", "M7-proof-kind-swap", "M11-append-to-sealed-keep-seal"} {
				if a.Cnt["mutants_decided:"+cl] == 0 {
					u = append(u, "sealed mutation class never decided: "+cl)
				}
			}
			return u
		},
	})
	core.Register(&core.Prop{
		ID:        "C17",
		MinCounts: map[string]int{"same_builder_builds": 250, "counter_source_cases": 60, "short_read_source_cases": 60},
		Level:     "exploration",
		Rule: "each case: 3 families under ONE root key, every block drawn from only three fixed contents (so identical-content blocks abound), 6-11 derivation steps each (append, seal, re-load on random members, siblings included). For every live token: number of identifiers = blocks, identifiers of the parent are a prefix, every identifier equals the signature the independent decoder R3 finds on that block; a case-wide map identifier <-> signing event (provenance carried by the history) must be injective both ways. Randomness: a seeded stream, and crypto/rand in every 8th case. " +
			"Non-trivial = cases with identical-content blocks signed by different events (pairs are counted).",
		Assumptions: []string{"the seeded stream never repeats 32-byte windows"},
		NumCases: func(tier string) int {
			if tier == "thorough" {
				return 300000
			}
			return 400
		},
		Run: c17Run,
		Floor: func(a *core.Agg) []string {
			u := []string{}
			if a.Cnt["identical_content_pairs"] < 1000 {
				u = append(u, fmt.Sprintf("identical-content pairs %d < 1000", a.Cnt["identical_content_pairs"]))
			}
			if a.Cnt["crypto_rand_cases"] < 10 {
				u = append(u, "crypto/rand cases < 10")
			}
			return u
		},
	})
}
