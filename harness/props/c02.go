package props

import (
	"crypto/ed25519"
	"fmt"
	"sort"
	"strings"
	"time"

	biscuit "github.com/biscuit-auth/biscuit-go/v2"
	"github.com/biscuit-auth/biscuit-go/v2/datalog"

	"verif/harness/ast"
	"verif/harness/core"
	"verif/harness/gen"
	"verif/harness/lib"
	"verif/harness/ref"
	"verif/harness/wire"
)

// C02 - attenuation can only restrict. Oracle: relational monitor over (parent, child) pairs
// with the same authorizer content: child = OK and parent != OK  =>  violation.
// C03 - block scoping. Oracle: relational monitor (with vs without a check-free block at every
// position, outcome class and probe answers) + R5 for the positive direction.

// rawHostileBlocks: what a holder can really do - write the block bytes directly and sign them
// with the token's own next secret. Returns serialized child tokens.
func rawHostileChildren(c *core.C, parent *lib.Token, asked []ast.Pred) []Mutant {
	out := []Mutant{}
	ser, err := parent.B.Serialize()
	if err != nil {
		return nil
	}
	d, err := wire.DecodeToken(ser)
	if err != nil || d.Env.ProofKind != wire.ProofSecret || len(d.Env.Proof) != 32 {
		return nil
	}
	secret := ed25519.NewKeyFromSeed(d.Env.Proof)
	tab := &wire.Table{}
	for _, wb := range d.WBlocks {
		tab.Syms = append(tab.Syms, wb.Symbols...)
	}
	base := len(tab.Syms)
	v3 := uint32(3)
	ctx := ""
	n := 0
	sign := func(class string, wb *wire.Block) {
		n++
		npub, npriv := lib.KeyPair(c.Seed, fmt.Sprintf("c02-raw-%d-%d", c.Idx, n))
		env := d.Env.Clone()
		env.Blocks = append(env.Blocks, wire.Sign(secret, wb.Encode(), npub))
		env.ProofKind, env.Proof = wire.ProofSecret, npriv.Seed()
		out = append(out, Mutant{Class: class, Bytes: env.Encode()})
	}
	mk := func() (*wire.Table, *wire.Block) {
		t := &wire.Table{Syms: append([]string{}, tab.Syms...)}
		return t, &wire.Block{Context: &ctx, Version: &v3}
	}
	if len(asked) == 0 {
		return nil
	}
	u := gen.NewUniverse(c.R)
	target := groundAtom(c.R, u, gen.Pick(c.R, asked))
	// 1. plain: the asked fact, spec-conformant
	{
		t, wb := mk()
		added := []string{}
		wb.Facts = append(wb.Facts, t.WPred(target, &added))
		wb.Symbols = added
		sign("raw-plain-fact", wb)
	}
	// 2. overlapping symbol table: re-declare earlier and default names so indexes shift
	{
		t, wb := mk()
		added := []string{}
		wb.Facts = append(wb.Facts, t.WPred(target, &added))
		wb.Symbols = append(append([]string{}, tab.Syms...), added...)
		wb.Symbols = append(wb.Symbols, "read", "right", "query")
		sign("raw-redeclared-symbols", wb)
	}
	// 3. wildcard fact: variables inside a fact match any constant
	{
		t, wb := mk()
		added := []string{}
		wild := ast.Pred{Name: target.Name, Terms: make([]ast.Term, len(target.Terms))}
		for i := range wild.Terms {
			wild.Terms[i] = ast.Var("w")
		}
		wb.Facts = append(wb.Facts, t.WPred(wild, &added))
		wb.Symbols = added
		sign("raw-wildcard-fact", wb)
	}
	// 4. duplicated facts and a rule head with an unbound variable
	{
		t, wb := mk()
		added := []string{}
		p := t.WPred(target, &added)
		wb.Facts = append(wb.Facts, p, p, p)
		h := ast.Pred{Name: target.Name, Terms: make([]ast.Term, len(target.Terms))}
		for i := range h.Terms {
			h.Terms[i] = ast.Var("free")
		}
		wb.Rules = append(wb.Rules, wire.Rule{Head: t.WPred(h, &added), Body: []wire.Pred{p}})
		wb.Symbols = added
		sign("raw-duplicates-and-unbound-head", wb)
	}
	// 5. symbol indexes pointing into earlier tables (re-pointing authority symbols) and out of range
	{
		_, wb := mk()
		name := uint64(0)
		if base > 0 {
			name = uint64(wire.Offset + c.R.Intn(base))
		}
		terms := []wire.Term{}
		for range target.Terms {
			idx := uint64(c.R.Intn(28))
			if base > 0 && c.R.Intn(2) == 0 {
				idx = uint64(wire.Offset + c.R.Intn(base))
			}
			if c.R.Intn(6) == 0 {
				idx = uint64(wire.Offset + base + 5)
			}
			terms = append(terms, wire.Term{Tag: wire.TString, U: idx})
		}
		wb.Facts = append(wb.Facts, wire.Pred{Name: name, Terms: terms})
		sign("raw-foreign-symbol-indexes", wb)
	}
	// 6. the default policies' heads and the query predicate
	{
		t, wb := mk()
		added := []string{}
		wb.Facts = append(wb.Facts, t.WPred(ast.P("query"), &added), t.WPred(ast.P("allow"), &added))
		wb.Rules = append(wb.Rules, wire.Rule{Head: t.WPred(ast.P("query"), &added)})
		wb.Symbols = added
		sign("raw-query-and-allow-facts", wb)
	}
	return out
}

// c02Dangling: T' = T + B1 where B1's check names a string by an index that no table of T'
// defines (it reads as "<invalid symbol>", so the check fails and T' is refused); the child
// T' + B2 declares exactly that symbol. If symbol resolution of B1 looks at tables of LATER
// blocks, B1's check starts to pass and the child is accepted although its parent is refused.
func c02Dangling(c *core.C, tok *lib.Token, a ast.AuthContent) {
	ser, err := tok.B.Serialize()
	if err != nil {
		return
	}
	d, err := wire.DecodeToken(ser)
	if err != nil || d.Env.ProofKind != wire.ProofSecret || len(d.Env.Proof) != 32 {
		return
	}
	known := map[string]bool{}
	for _, s := range wire.DefaultSymbols {
		known[s] = true
	}
	n := 0
	for _, wb := range d.WBlocks {
		for _, s := range wb.Symbols {
			known[s] = true
			n++
		}
	}
	// an authorizer fact with a string the token has never seen
	var target *ast.Pred
	pos := -1
	for i := range a.Facts {
		for j, t := range a.Facts[i].Terms {
			if t.K == ast.KStr && !known[t.S] {
				target, pos = &a.Facts[i], j
			}
		}
	}
	if target == nil {
		return
	}
	tab := &wire.Table{}
	for _, wb := range d.WBlocks {
		tab.Syms = append(tab.Syms, wb.Symbols...)
	}
	added := []string{}
	q := tab.WPred(*target, &added)
	// drop the target string from what B1 declares: its index becomes dangling
	decl := []string{}
	for _, s := range added {
		if s != target.Terms[pos].S {
			decl = append(decl, s)
		}
	}
	// re-intern against a table without the dangling symbol so that indexes are consistent
	tab2 := &wire.Table{}
	for _, wb := range d.WBlocks {
		tab2.Syms = append(tab2.Syms, wb.Symbols...)
	}
	added2 := []string{}
	for _, s := range decl {
		tab2.Intern(s, &added2)
	}
	q = wire.Pred{}
	for j, t := range target.Terms {
		if j == pos {
			q.Terms = append(q.Terms, wire.Term{Tag: wire.TString, U: uint64(wire.Offset + len(tab2.Syms))}) // first free index
		} else {
			q.Terms = append(q.Terms, tab2.WTerm(t, &added2))
		}
	}
	q.Name = tab2.Intern(target.Name, &added2)
	// variants of B1's symbol table: exact; with an extra entry that does NOT extend the token's
	// table (a default name, or a name an earlier block already declared) - such an entry must
	// not let B1 see one more symbol of the next block
	variants := map[string][]string{"": added2, "+default-name": append(append([]string{}, added2...), "read")}
	if len(tab.Syms) > 0 {
		variants["+redeclared-name"] = append(append([]string{}, added2...), tab.Syms[0])
	}
	for _, vn := range []string{"", "+default-name", "+redeclared-name"} {
		if syms, ok := variants[vn]; ok {
			c02DanglingVariant(c, tok, a, d, vn, syms, q, *target, pos)
		}
	}
}

func c02DanglingVariant(c *core.C, tok *lib.Token, a ast.AuthContent, d *wire.Decoded, variant string, b1syms []string, q wire.Pred, target ast.Pred, pos int) {
	v3 := uint32(3)
	ctx := ""
	b1 := &wire.Block{Symbols: b1syms, Context: &ctx, Version: &v3, Checks: []wire.Check{{{Head: wire.Pred{Name: 27}, Body: []wire.Pred{q}}}}}
	b2 := &wire.Block{Symbols: []string{target.Terms[pos].S}, Context: &ctx, Version: &v3}
	secret := ed25519.NewKeyFromSeed(d.Env.Proof)
	p1, s1 := lib.KeyPair(c.Seed, fmt.Sprintf("c02-dang1-%d", c.Idx))
	p2, s2 := lib.KeyPair(c.Seed, fmt.Sprintf("c02-dang2-%d", c.Idx))
	parentEnv := d.Env.Clone()
	parentEnv.Blocks = append(parentEnv.Blocks, wire.Sign(secret, b1.Encode(), p1))
	parentEnv.ProofKind, parentEnv.Proof = wire.ProofSecret, s1.Seed()
	childEnv := parentEnv.Clone()
	childEnv.Blocks = append(childEnv.Blocks, wire.Sign(s1, b2.Encode(), p2))
	childEnv.ProofKind, childEnv.Proof = wire.ProofSecret, s2.Seed()
	var pt, ct *biscuit.Biscuit
	var e1, e2 error
	pi := lib.Try(func() {
		pt, e1 = biscuit.Unmarshal(parentEnv.Encode())
		ct, e2 = biscuit.Unmarshal(childEnv.Encode())
	})
	desc := map[string]any{"source": "raw-dangling-symbol-completed-by-child" + variant, "token": gen.Texts(tok.Blocks), "authorizer": gen.AuthTexts(a), "dangling_check_on": target.Key(), "completed_symbol": target.Terms[pos].S, "parent_last_block_symbols": b1syms}
	if pi != nil {
		c.Violate("unmarshal-panic/"+pi.Site, pi.Msg, desc)
		return
	}
	if e1 != nil || e2 != nil {
		c.Count("raw_child_rejected_at_unmarshal:dangling", 1)
		return
	}
	c.Eval(2)
	po := c02Observe(pt, tok.Pub, a)
	co := c02Observe(ct, tok.Pub, a)
	desc["parent"], desc["child"] = po, co
	c.Count("raw_child_loaded:raw-dangling-symbol-completed-by-child"+variant, 1)
	c.Count("dangling_parent_"+string(po.Class), 1)
	if po.Class != lib.OK && po.Class != lib.LIMIT && (co.Class == lib.OK || co.Second == lib.OK) {
		c.Violate("attenuation-widened/raw-dangling-symbol-completed-by-child"+variant, fmt.Sprintf("parent with a dangling symbol index is refused (%s); appending a block that only declares the missing symbol makes it accepted", po.Class), desc)
	}
	// the same completion through the library's own derivations, used IN MEMORY (no round trip
	// through bytes in between): a child appended by the library, and sealed copies of both children
	forms := map[string]*biscuit.Biscuit{}
	rng := lib.NewDetRand(c.Seed, fmt.Sprintf("c02-dang-rng-%d", c.Idx))
	lib.Try(func() {
		bb := pt.CreateBlock()
		_ = bb.AddFact(ast.P("completes", ast.Str(target.Terms[pos].S)).LibFact())
		if lc, err := pt.Append(rng, bb.Build()); err == nil {
			forms["library-append-in-memory"] = lc
			if sl, err := lc.Seal(rng); err == nil {
				forms["library-append-then-seal-in-memory"] = sl
			}
		}
		if sc, err := ct.Seal(rng); err == nil {
			forms["seal-in-memory"] = sc
		}
	})
	for _, fn := range []string{"library-append-in-memory", "library-append-then-seal-in-memory", "seal-in-memory"} {
		b, ok := forms[fn]
		if !ok {
			continue
		}
		c.Eval(1)
		fo := c02Observe(b, tok.Pub, a)
		// a sealed copy authorizes exactly like the token it was sealed from (C09), hostile or not
		if src, ok := map[string]string{"seal-in-memory": "", "library-append-then-seal-in-memory": "library-append-in-memory"}[fn]; ok {
			so := co
			if src != "" {
				if sb, ok := forms[src]; ok {
					so = c02Observe(sb, tok.Pub, a)
				}
			}
			if fo.Class != so.Class && fo.Class != lib.LIMIT && so.Class != lib.LIMIT {
				desc["derived_form"], desc["derived"], desc["sealed_from"] = fn, fo, so
				c.Violate("sealing-changes-outcome/hostile-token/"+fn, fmt.Sprintf("the token it was sealed from gives %s, the sealed copy used in memory gives %s", so.Class, fo.Class), desc)
			}
		}
		if po.Class != lib.OK && po.Class != lib.LIMIT && (fo.Class == lib.OK || fo.Second == lib.OK) {
			desc["derived_form"], desc["derived"] = fn, fo
			c.Violate("attenuation-widened/raw-dangling-symbol-completed-by-child"+variant+"/"+fn, fmt.Sprintf("parent with a dangling symbol index is refused (%s); the %s form of the completed token is accepted", po.Class, fn), desc)
		}
		c.Count("dangling_derived_forms", 1)
	}
	if po.Class != lib.OK {
		c.NT(core.JSON(desc))
	}
}

type c02Obs struct {
	Class      lib.Class `json:"class"`
	Second     lib.Class `json:"second_authorize"`
	AfterQuery lib.Class `json:"authorize_after_query"`
	Third      lib.Class `json:"authorize_query_authorize"`
	Err        string    `json:"err,omitempty"`
}

func c02Observe(b *biscuit.Biscuit, pub ed25519.PublicKey, a ast.AuthContent) c02Obs {
	var o c02Obs
	pi := lib.Try(func() {
		az, err := b.AuthorizerFor(biscuit.WithSingularRootPublicKey(pub), lib.BigLimits())
		if err != nil {
			o.Class, o.Err = lib.FAIL, err.Error()
			return
		}
		lib.AddContent(az, a)
		err = az.Authorize()
		o.Class = lib.Classify(err)
		if err != nil {
			o.Err = core.Head(err.Error(), 200)
		}
		o.Second = lib.Classify(az.Authorize())
		// ... then queries on the evaluated authorizer, then Authorize once more
		for _, q := range c02Probes(a) {
			_, _ = az.Query(q.Lib())
		}
		o.Third = lib.Classify(az.Authorize())
		// the same request on a fresh authorizer, but with a Query before Authorize
		az2, err := b.AuthorizerFor(biscuit.WithSingularRootPublicKey(pub), lib.BigLimits())
		if err == nil {
			lib.AddContent(az2, a)
			for _, q := range c02Probes(a) {
				_, _ = az2.Query(q.Lib())
			}
			o.AfterQuery = lib.Classify(az2.Authorize())
		}
	})
	if pi != nil {
		o.Class = lib.PANIC
		o.Err = pi.Msg + " at " + pi.Site
	}
	return o
}

// c02Probes: queries a caller might run before authorizing (one per policy / check body atom).
func c02Probes(a ast.AuthContent) []ast.Rule {
	out := []ast.Rule{{Head: ast.P("probe_any", ast.Var("x")), Body: []ast.Pred{ast.P("resource", ast.Var("x"))}}}
	for _, p := range askedAtoms(nil, a) {
		if len(out) >= 3 {
			break
		}
		out = append(out, ast.Rule{Head: ast.P("probe_asked"), Body: []ast.Pred{p}})
	}
	return out
}

// c02LimitRefusal: the parent is refused because its authority block or its LAST block exceeds a
// deterministic run limit (fact count or iteration count, never a clock), fails while its rules
// are applied (division by zero), or carries a false check made of an expression only; appending
// a harmless block (used in memory or re-loaded) must not make it accepted.
func c02LimitRefusal(c *core.C) {
	r := c.R
	n := 6 + r.Intn(6)
	kind := []string{"max-facts", "max-iterations"}[r.Intn(2)]
	if c.Idx/5%4 == 0 {
		kind = "max-facts"
	}
	heavy := ast.Block{Rules: []ast.Rule{{Head: ast.P("pair", vX, vY), Body: []ast.Pred{ast.P("p", vX), ast.P("p", vY)}}}}
	maxFacts := n + n*n/2
	if c.Idx/5%8 != 4 {
		maxFacts = n + n*n - 1 // one fact short of the least model: a handful of facts of lee-way would be enough
	}
	opt := biscuit.WithWorldOptions(datalog.WithMaxFacts(maxFacts), datalog.WithMaxIterations(1000), datalog.WithMaxDuration(60*time.Second))
	if kind == "max-iterations" {
		_, rules := ruleChainProg(12)
		heavy = ast.Block{Facts: []ast.Pred{ast.P("step0")}, Rules: rules}
		opt = biscuit.WithWorldOptions(datalog.WithMaxFacts(100000), datalog.WithMaxIterations(5), datalog.WithMaxDuration(60*time.Second))
	}
	switch c.Idx / 5 % 4 {
	case 2:
		// an expression that fails on every binding (division by zero) while the rule is applied
		kind = "run-error"
		heavy = ast.Block{Facts: []ast.Pred{ast.P("quota", ast.Int(10))}, Rules: []ast.Rule{{Head: ast.P("share", vX), Body: []ast.Pred{ast.P("quota", vX)},
			Exprs: []ast.Expr{{ast.OV(vX), ast.OV(ast.Int(0)), ast.OB(int(ast.BDiv)), ast.OV(ast.Int(1)), ast.OB(int(ast.BEqual))}}}}}
		opt = lib.BigLimits()
	case 3:
		// a check made of an expression only, which is false
		kind = "false-expression-only-check"
		heavy = ast.Block{Checks: []ast.Check{{Queries: []ast.Rule{{Head: ast.P("query"), Exprs: []ast.Expr{{ast.OV(ast.Int(2)), ast.OV(ast.Int(1)), ast.OB(int(ast.BLessThan))}}}}}}}
		opt = lib.BigLimits()
	}
	// the refusing part sits in the authority block or in the parent's last block
	inAuthority := c.Idx/20%2 == 1
	blocks := []ast.Block{{Facts: factsP(n)}}
	if inAuthority {
		blocks[0].Facts = append(blocks[0].Facts, heavy.Facts...)
		blocks[0].Rules, blocks[0].Checks = heavy.Rules, heavy.Checks
		kind += "-in-authority"
	}
	for k, m := 0, r.Intn(2); k < m; k++ {
		blocks = append(blocks, ast.Block{Facts: []ast.Pred{ast.P("note", ast.Int(int64(k)))}})
	}
	if !inAuthority {
		blocks = append(blocks, heavy)
	}
	parent, err := buildScenarioToken(c.Seed, fmt.Sprintf("c02-lim-%d", c.Idx), blocks)
	if err != nil {
		c.Violate("build-refused", err.Error(), nil)
		return
	}
	harmless := []ast.Block{
		{Facts: []ast.Pred{ast.P("harmless", ast.Int(1))}},
		{Checks: []ast.Check{{Queries: []ast.Rule{{Head: ast.P("query"), Exprs: []ast.Expr{{ast.OV(ast.Bool(true))}}}}}}},
		{},
		// the parent's own facts once more (a block's facts must not buy lee-way under the fact limit)
		{Facts: append(factsP(n), heavy.Facts...)},
		{Facts: append(append(factsP(n), heavy.Facts...), ast.P("harmless", ast.Int(2)))},
	}
	// blocks made of failing checks only: whatever their number, one more refusal cannot add up to an acceptance
	// (255 + the parent's one failing check = 256, 65535 + 1 = 65536)
	failing := []int{1, 254, 255, 256, 257, 511}
	if c.Thorough() && c.Idx%50 == 19 {
		failing = append(failing, 65535, 65536)
	}
	for _, m := range failing {
		b := ast.Block{}
		for i := 0; i < m; i++ {
			b.Checks = append(b.Checks, ast.Check{Queries: []ast.Rule{{Head: ast.P("query"), Body: []ast.Pred{ast.P("nope", ast.Int(int64(i)))}}}})
		}
		harmless = append(harmless, b)
		c.Count("failing_check_blocks", 1)
	}
	obs := func(t *lib.Token) (lib.Class, string) {
		var cl lib.Class
		var es string
		pi := lib.Try(func() {
			a, err := t.B.AuthorizerFor(biscuit.WithSingularRootPublicKey(t.Pub), opt)
			if err != nil {
				cl, es = lib.FAIL, err.Error()
				return
			}
			a.AddPolicy(allowAll.Lib())
			err = a.Authorize()
			cl = lib.Classify(err)
			if err != nil {
				es = err.Error()
			}
		})
		if pi != nil {
			cl, es = lib.PANIC, pi.Msg
		}
		return cl, es
	}
	pc, pe := obs(parent)
	c.Eval(1)
	if strings.Contains(pe, "timeout") {
		c.Inconc("timeout under a 60 s deadline")
		return
	}
	c.Count("limit_parent_"+string(pc), 1)
	rng := lib.NewDetRand(c.Seed, fmt.Sprintf("c02-lim-rng-%d", c.Idx))
	for _, h := range harmless {
		child, err := parent.Append(rng, h)
		if err != nil {
			continue
		}
		if r.Intn(2) == 0 {
			if t2, err := child.Reload(); err == nil {
				child = t2
			}
		}
		cc, ce := obs(child)
		c.Eval(1)
		desc := map[string]any{"source": "limit-refusal/" + kind, "token": gen.Texts(parent.Blocks), "appended": capLines(gen.Texts([]ast.Block{h})[0], 12), "appended_checks": len(h.Checks), "appended_facts": len(h.Facts), "parent": pc, "parent_error": pe, "child": cc, "child_error": ce}
		if pc != lib.OK && cc == lib.OK {
			c.Violate("attenuation-widened/limit-refusal-"+kind, fmt.Sprintf("the parent is refused (%s: %s); appending a harmless block makes it accepted", kind, pe), desc)
		}
		if pc != lib.OK {
			c.NT(core.JSON(desc))
			c.Count("limit_refusal_pairs", 1)
		}
	}
}

func c02Run(c *core.C) {
	if c.Idx%5 == 4 {
		c02LimitRefusal(c)
		return
	}
	r := c.R
	for rep := 0; rep < 4; rep++ {
		s := gen.NewScenario(r, 3, scenOpts)
		countBig(c, s)
		tok, err := buildScenarioToken(c.Seed, fmt.Sprintf("c02-%d-%d", c.Idx, rep), s.Blocks)
		if err != nil {
			c.Violate("build-refused", err.Error(), gen.Texts(s.Blocks))
			continue
		}
		if r.Intn(2) == 0 {
			if t2, err := tok.Reload(); err == nil {
				tok = t2
			}
		}
		// authorizer panel generated FROM the token, so that refusals are repairable
		auths := []ast.AuthContent{s.Auth}
		for k := 0; k < 2; k++ {
			_, b := c04Perturb(r, s.U, s.Auth)
			auths = append(auths, b)
		}
		rng := lib.NewDetRand(c.Seed, fmt.Sprintf("c02-rng-%d-%d", c.Idx, rep))
		for ai, a := range auths {
			parent := c02Observe(tok.B, tok.Pub, a)
			c.Eval(1)
			if parent.Class == lib.PANIC {
				c.Violate("authorize-panic", parent.Err, map[string]any{"token": gen.Texts(tok.Blocks), "authorizer": gen.AuthTexts(a)})
				continue
			}
			if parent.Class == lib.LIMIT {
				c.Inconc("parent hit a limit under large limits")
				continue
			}
			c.Count("parent_"+string(parent.Class), 1)
			asked := askedAtoms(tok.Blocks, a)
			decide := func(kind string, child c02Obs, desc any, targeted bool) {
				c.Eval(1)
				if child.Class == lib.PANIC {
					c.Violate("authorize-panic", child.Err, desc)
					return
				}
				c.Count("child_"+string(child.Class), 1)
				if parent.Class != lib.OK && (child.Class == lib.OK || child.Second == lib.OK) {
					c.Violate("attenuation-widened/"+kind, fmt.Sprintf("parent is refused (%s) but the attenuated token is accepted", parent.Class), desc)
				}
				if parent.Third != lib.OK && parent.Third != lib.LIMIT && parent.Third != "" && child.Third == lib.OK {
					c.Violate("attenuation-widened-on-authorize-query-authorize/"+kind, fmt.Sprintf("Authorize, Query, Authorize on one authorizer: the parent is refused (%s) but the attenuated token is accepted the last time", parent.Third), desc)
				}
				if parent.AfterQuery != lib.OK && parent.AfterQuery != lib.LIMIT && parent.AfterQuery != "" && child.AfterQuery == lib.OK {
					c.Violate("attenuation-widened-after-query/"+kind, fmt.Sprintf("with a Query before Authorize the parent is refused (%s) but the attenuated token is accepted", parent.AfterQuery), desc)
				}
				if parent.Class != lib.OK && targeted {
					c.Count("nontrivial_pairs", 1)
					c.NT(core.JSON(desc))
				}
			}
			// (i) builder API, adversarial content; (iii) appended twice and after re-load
			for k := 0; k < 2; k++ {
				blk, targeted := adversarialBlock(r, s.U, tok.Blocks, a, true)
				child, err := tok.Append(rng, blk)
				if err != nil {
					c.Count("append_refused", 1)
					continue
				}
				desc := map[string]any{"source": "builder", "token": gen.Texts(tok.Blocks), "appended": gen.Texts([]ast.Block{blk})[0], "authorizer": gen.AuthTexts(a), "parent": parent}
				decide("builder-block", c02Observe(child.B, child.Pub, a), desc, targeted)
				if ai == 0 && k == 0 && rep == 0 {
					c.Sample(map[string]any{"kind": "attenuation pair", "token": gen.Texts(tok.Blocks), "appended": gen.Texts([]ast.Block{blk})[0], "authorizer": gen.AuthTexts(a), "parent_class": parent.Class})
				}
				if r.Intn(3) == 0 {
					twice, err := child.Append(rng, blk)
					if err == nil {
						if r.Intn(2) == 0 {
							if t2, err := twice.Reload(); err == nil {
								twice = t2
							}
						}
						decide("builder-block-twice", c02Observe(twice.B, twice.Pub, a), desc, targeted)
					}
				}
			}
			// (ii) raw blocks signed with the token's own next secret
			if ai == 0 {
				for _, m := range rawHostileChildren(c, tok, asked) {
					var child *biscuit.Biscuit
					var uerr error
					pi := lib.Try(func() { child, uerr = biscuit.Unmarshal(m.Bytes) })
					desc := map[string]any{"source": m.Class, "token": gen.Texts(tok.Blocks), "authorizer": gen.AuthTexts(a), "parent": parent}
					if pi != nil {
						c.Violate("unmarshal-panic/"+pi.Site, pi.Msg, desc)
						continue
					}
					if uerr != nil {
						c.Count("raw_child_rejected_at_unmarshal:"+m.Class, 1)
						continue
					}
					c.Count("raw_child_loaded:"+m.Class, 1)
					decide(m.Class, c02Observe(child, tok.Pub, a), desc, true)
				}
			}
			// (iv) a parent whose last block has a DANGLING symbol index in a check, completed by
			// the symbol table of the appended block (both written raw, signed with the chain's secrets)
			if parent.Class == lib.OK {
				c02Dangling(c, tok, a)
			}
		}
	}
}

// ---- C03 ---------------------------------------------------------------------------------

// c03SharedTerms: the authority block holds facts with set terms; a check-free block in the
// middle applies intersection / union / contains to them in a rule; a later block's check and the
// authorizer's queries look inside the same sets. Whatever the middle block computes, the sets
// everybody else sees are the ones the authority block stated.
func c03SharedTerms(c *core.C) {
	r := c.R
	strs := []ast.Term{ast.Str("alpha"), ast.Str("beta"), ast.Str("gamma"), ast.Str("delta")}
	r.Shuffle(len(strs), func(i, j int) { strs[i], strs[j] = strs[j], strs[i] })
	whole := ast.SetOf(strs[0], strs[1], strs[2])
	nums := ast.SetOf(ast.Int(3), ast.Int(1), ast.Int(2))
	sv, nv := ast.Var("s"), ast.Var("n")
	auth := ast.Block{Facts: []ast.Pred{ast.P("allowed", whole), ast.P("nums", nums)}}
	ops := []int{int(ast.BIntersection), int(ast.BUnion)}
	op := ops[r.Intn(2)]
	// the operand keeps an element that is not the first one, so that the result is no prefix
	part := ast.SetOf(strs[1+r.Intn(2)])
	npart := ast.SetOf(ast.Int(int64(1 + r.Intn(2))))
	free := ast.Block{Rules: []ast.Rule{
		{Head: ast.P("seen", sv), Body: []ast.Pred{ast.P("allowed", sv)}, Exprs: []ast.Expr{{ast.OV(sv), ast.OV(part), ast.OB(op), ast.OU(int(ast.ULength)), ast.OV(ast.Int(0)), ast.OB(int(ast.BGreaterOrEqual))}}},
		{Head: ast.P("seen_n", nv), Body: []ast.Pred{ast.P("nums", nv)}, Exprs: []ast.Expr{{ast.OV(nv), ast.OV(npart), ast.OB(op), ast.OU(int(ast.ULength)), ast.OV(ast.Int(0)), ast.OB(int(ast.BGreaterOrEqual))}}},
	}}
	if r.Intn(2) == 0 {
		free.Facts = []ast.Pred{ast.P("note", ast.Int(1))}
	}
	respelled := r.Intn(2) == 0
	if respelled {
		// the check-free block states the authority block's facts once more, the members of the sets in
		// another order: the same facts, so nothing new - and the authority's own spelling stays what
		// everybody else is shown
		free.Facts = append(free.Facts, ast.P("allowed", ast.SetOf(strs[2], strs[0], strs[1])), ast.P("nums", ast.SetOf(ast.Int(2), ast.Int(3), ast.Int(1))))
		// (the builders put the members of a set in order, so the only spelling that survives into a token
		// is a repeated member: [1, 2, 2] and [1, 1, 2] are the same fact to the engine)
		auth.Facts = append(auth.Facts, ast.P("dups", ast.SetOf(ast.Int(1), ast.Int(2), ast.Int(2))), ast.P("dupstr", ast.SetOf(strs[0], strs[1], strs[1])))
		free.Facts = append(free.Facts, ast.P("dups", ast.SetOf(ast.Int(1), ast.Int(1), ast.Int(2))), ast.P("dupstr", ast.SetOf(strs[0], strs[0], strs[1])))
		c.Count("shared_set_term_pairs_respelled", 1)
	}
	asking := ast.Block{Checks: []ast.Check{
		{Queries: []ast.Rule{{Head: ast.P("query"), Body: []ast.Pred{ast.P("allowed", sv)}, Exprs: []ast.Expr{{ast.OV(sv), ast.OV(strs[0]), ast.OB(int(ast.BContains))}}}}},
		{Queries: []ast.Rule{{Head: ast.P("query"), Body: []ast.Pred{ast.P("nums", nv)}, Exprs: []ast.Expr{{ast.OV(nv), ast.OU(int(ast.ULength)), ast.OV(ast.Int(3)), ast.OB(int(ast.BEqual))}}}}},
	}}
	a := ast.AuthContent{Policies: []ast.Policy{allowAll}}
	probes := []ast.Rule{{Head: ast.P("probe_allowed", sv), Body: []ast.Pred{ast.P("allowed", sv)}}, {Head: ast.P("probe_nums", nv), Body: []ast.Pred{ast.P("nums", nv)}},
		{Head: ast.P("probe_dups", nv), Body: []ast.Pred{ast.P("dups", nv)}}, {Head: ast.P("probe_dupstr", sv), Body: []ast.Pred{ast.P("dupstr", sv)}}}
	without, err1 := buildScenarioToken(c.Seed, fmt.Sprintf("c03s-%d-a", c.Idx), []ast.Block{auth, asking})
	with, err2 := buildScenarioToken(c.Seed, fmt.Sprintf("c03s-%d-b", c.Idx), []ast.Block{auth, free, asking})
	if err1 != nil || err2 != nil {
		c.Violate("build-refused", fmt.Sprint(err1, err2), nil)
		return
	}
	if r.Intn(2) == 0 {
		if t2, err := with.Reload(); err == nil {
			with = t2
		}
	}
	wo := lib.Observe(without.B, without.Pub, a, probes)
	wi := lib.Observe(with.B, with.Pub, a, probes)
	c.Eval(2)
	desc := map[string]any{"token_without": gen.Texts(without.Blocks), "check_free_block": gen.Texts([]ast.Block{free})[0], "without": wo, "with": wi}
	if wo.Class != lib.OK {
		c.Violate("shared-terms-control", fmt.Sprintf("control token refused: %s %s", wo.Class, wo.Err), desc)
		return
	}
	if wi.Class != wo.Class {
		c.Violate("check-free-block-changes-outcome/shared-set-term", fmt.Sprintf("outcome %s without the block, %s with it", wo.Class, wi.Class), desc)
	} else if core.JSON(wi.Queries) != core.JSON(wo.Queries) {
		c.Violate("check-free-block-changes-query-results/shared-set-term", "authorizer query results differ with a check-free block that computes on the authority block's sets", desc)
	}
	// the answers as the library spells them (member order included), after Authorize and after a second Authorize
	raw := func(t *lib.Token) string {
		out := ""
		lib.Try(func() {
			az, err := t.B.AuthorizerFor(biscuit.WithSingularRootPublicKey(t.Pub), lib.BigLimits())
			if err != nil {
				out = "error: " + err.Error()
				return
			}
			lib.AddContent(az, a)
			for k := 0; k < 2; k++ {
				_ = az.Authorize()
				for _, p := range probes {
					fs, err := az.Query(p.Lib())
					out += fmt.Sprintf("%v %v;", fs, err)
				}
			}
		})
		return out
	}
	if rw, ro := raw(with), raw(without); rw != ro {
		desc["raw_with"], desc["raw_without"] = rw, ro
		c.Violate("check-free-block-changes-query-results/spelling-of-shared-set-term", "the facts an authorizer query returns are spelled differently with a check-free block that restates them", desc)
	}
	c.Eval(2)
	c.Count("shared_set_term_pairs", 1)
	c.NT("shared-terms/" + core.JSON(desc["check_free_block"]) + whole.Key())
}

// shiftFailed renumbers the failed checks of a token that has one extra, check-free block at
// position p so that they can be compared with the token without it.
func shiftFailed(failed []string, p int) []string {
	out := []string{}
	for _, f := range failed {
		var bi, ci int
		if n, _ := fmt.Sscanf(f, "B%d:%d", &bi, &ci); n == 2 && bi > p {
			f = fmt.Sprintf("B%d:%d", bi-1, ci)
		}
		out = append(out, f)
	}
	sort.Strings(out)
	return out
}

// c03FailedBlockThenQuery: a later block whose own evaluation hits a run limit (iterations or facts)
// makes Authorize fail - and still leaves nothing of itself behind: what the authorizer answers to
// queries, and prints as its world, afterwards is what it answers for the token without that block.
func c03FailedBlockThenQuery(c *core.C) {
	r := c.R
	n := 3 + r.Intn(3)
	auth := ast.Block{Facts: factsP(n)}
	var heavy ast.Block
	var opt biscuit.AuthorizerOption
	kind := []string{"max-iterations", "max-facts"}[c.Idx%2]
	if kind == "max-iterations" {
		fs, rs := ruleChainProg(6)
		heavy = ast.Block{Facts: fs, Rules: rs}
		opt = biscuit.WithWorldOptions(datalog.WithMaxFacts(100000), datalog.WithMaxIterations(2), datalog.WithMaxDuration(60*time.Second))
	} else {
		heavy = ast.Block{Facts: []ast.Pred{ast.P("step0")}, Rules: []ast.Rule{{Head: ast.P("pair", vX, vY), Body: []ast.Pred{ast.P("p", vX), ast.P("p", vY)}}}}
		opt = biscuit.WithWorldOptions(datalog.WithMaxFacts(n+3), datalog.WithMaxIterations(1000), datalog.WithMaxDuration(60*time.Second))
	}
	blocks := []ast.Block{auth}
	if r.Intn(2) == 0 {
		blocks = append(blocks, ast.Block{Facts: []ast.Pred{ast.P("note", ast.Int(1))}})
	}
	without, err1 := buildScenarioToken(c.Seed, fmt.Sprintf("c03f-%d-a", c.Idx), blocks)
	with, err2 := buildScenarioToken(c.Seed, fmt.Sprintf("c03f-%d-b", c.Idx), append(append([]ast.Block{}, blocks...), heavy))
	if err1 != nil || err2 != nil {
		c.Violate("build-refused", fmt.Sprint(err1, err2), nil)
		return
	}
	if r.Intn(2) == 0 {
		if t2, err := with.Reload(); err == nil {
			with = t2
		}
	}
	v := ast.Var("v")
	probes := []ast.Rule{{Head: ast.P("q", v), Body: []ast.Pred{ast.P("p", v)}}, {Head: ast.P("q"), Body: []ast.Pred{ast.P("step0")}}, {Head: ast.P("q"), Body: []ast.Pred{ast.P("step1")}},
		{Head: ast.P("q", vX, vY), Body: []ast.Pred{ast.P("pair", vX, vY)}}, {Head: ast.P("q", v), Body: []ast.Pred{ast.P("note", v)}}}
	obs := func(t *lib.Token) (cls lib.Class, answers []string, world string) {
		pi := lib.Try(func() {
			az, err := t.B.AuthorizerFor(biscuit.WithSingularRootPublicKey(t.Pub), opt)
			if err != nil {
				cls = lib.FAIL
				return
			}
			az.AddPolicy(allowAll.Lib())
			cls = lib.Classify(az.Authorize())
			for _, p := range probes {
				ks, err := lib.QueryKeys(az, p)
				answers = append(answers, fmt.Sprint(ks, err != nil))
			}
			world = az.PrintWorld()
		})
		if pi != nil {
			cls = lib.PANIC
		}
		return
	}
	cw, aw, ww := obs(with)
	co, ao, wo := obs(without)
	c.Eval(2)
	desc := map[string]any{"limit": kind, "token_without": gen.Texts(without.Blocks), "failing_block": gen.Texts([]ast.Block{heavy})[0], "with": cw, "answers_with": aw, "without": co, "answers_without": ao}
	if co != lib.OK || cw == lib.OK || cw == lib.PANIC {
		c.Violate("failed-block-control", fmt.Sprintf("expected OK without the block and a refusal with it, got %s and %s", co, cw), desc)
		return
	}
	if core.JSON(aw) != core.JSON(ao) {
		c.Violate("failed-block-changes-query-results/"+kind, "after an Authorize that failed inside a later block, authorizer queries answer differently from the token without that block", desc)
	} else if ww != wo {
		desc["world_with"], desc["world_without"] = ww, wo
		c.Violate("failed-block-changes-printed-world/"+kind, "after an Authorize that failed inside a later block, PrintWorld shows something else than for the token without that block", desc)
	}
	c.Count("failed_block_then_query_pairs", 1)
	c.NT("failed-block/" + kind + fmt.Sprint(n, len(blocks)))
}

func c03Run(c *core.C) {
	r := c.R
	c03SharedTerms(c)
	c03FailedBlockThenQuery(c)
	// symbols are scoped like facts: a block cannot give a meaning to a symbol index that an
	// earlier block left undefined, whichever way the token was derived (shared with C02)
	if ds := gen.NewScenario(r, 2, scenOpts); true {
		countBig(c, ds)
		if dt, err := buildScenarioToken(c.Seed, fmt.Sprintf("c03-dang-%d", c.Idx), ds.Blocks); err == nil {
			c02Dangling(c, dt, ds.Auth)
		}
	}
	for rep := 0; rep < 4; rep++ {
		s := gen.NewScenario(r, 3, scenOpts)
		countBig(c, s)
		a := s.Auth
		if r.Intn(2) == 0 {
			_, a = c04Perturb(r, s.U, a)
		}
		base, err := buildScenarioToken(c.Seed, fmt.Sprintf("c03-%d-%d", c.Idx, rep), s.Blocks)
		if err != nil {
			c.Violate("build-refused", err.Error(), gen.Texts(s.Blocks))
			continue
		}
		d0 := ref.Authorize(base.Blocks, a)
		if d0.Class == "" || d0.Signature == "run-error" || d0.Signature == "block-run-error" {
			c.Count("skipped_not_error_free", 1)
			continue
		}
		without := lib.Observe(base.B, base.Pub, a, s.Probes)
		withoutObs := c02Observe(base.B, base.Pub, a)
		withoutAfterQuery := withoutObs.AfterQuery
		c.Eval(1)
		if without.Class == lib.LIMIT || without.Class == lib.PANIC {
			c.Inconc("base outcome " + string(without.Class))
			continue
		}
		for k := 0; k < 3; k++ {
			free, _ := adversarialBlock(r, s.U, base.Blocks, a, false)
			if len(free.Rules) > 0 && k == 1 {
				// a block that only carries rules: what it derives must stay its own as well
				free.Facts = nil
				c.Count("rule_only_blocks", 1)
			}
			if len(free.Facts)+len(free.Rules) == 0 {
				continue
			}
			// leak sensitivity: would the outcome / probe answers change if the block leaked?
			leak := ref.Authorize(mergeIntoAuthority(base.Blocks, free), a)
			sensitive := leak.Class != "" && (leak.Class != d0.Class || core.JSON(probeAnswers(leak, s.Probes)) != core.JSON(probeAnswers(d0, s.Probes)))
			for p := 1; p <= len(base.Blocks); p++ {
				blocks := insertBlock(base.Blocks, free, p)
				tok, err := buildScenarioToken(c.Seed, fmt.Sprintf("c03-%d-%d-%d-%d", c.Idx, rep, k, p), blocks)
				if err != nil {
					c.Count("build_with_block_refused", 1)
					continue
				}
				if r.Intn(3) == 0 {
					if t2, err := tok.Reload(); err == nil {
						tok = t2
					}
				}
				with := lib.Observe(tok.B, tok.Pub, a, s.Probes)
				c.Eval(1)
				desc := map[string]any{"token_without": gen.Texts(base.Blocks), "check_free_block": gen.Texts([]ast.Block{free})[0], "position": p, "authorizer": gen.AuthTexts(a), "without": without, "with": with}
				if with.Class == lib.PANIC {
					c.Violate("authorize-panic", with.Panic.Msg, desc)
					continue
				}
				if with.Class == lib.LIMIT {
					c.Inconc("limit sentinel under large limits")
					continue
				}
				if with.Class != without.Class {
					c.Violate("check-free-block-changes-outcome", fmt.Sprintf("outcome %s without the block, %s with it (position %d)", without.Class, with.Class, p), desc)
				} else if wf := shiftFailed(with.Failed, p); strings.Join(wf, ",") != strings.Join(without.Failed, ",") {
					// the outcome of every single check is the same with and without the block: the
					// checks named as failed are the same ones (block numbers above the insert position shifted back)
					c.Violate("check-free-block-changes-failed-checks", fmt.Sprintf("checks reported as failed without the block: %v, with it at position %d: %v", without.Failed, p, with.Failed), desc)
				} else if core.JSON(with.Queries) != core.JSON(without.Queries) {
					c.Violate("check-free-block-changes-query-results", fmt.Sprintf("authorizer query results differ with a check-free block at position %d", p), desc)
				}
				// the same comparison with the queries run BEFORE Authorize
				wobs := c02Observe(tok.B, tok.Pub, a)
				if wq, woq := wobs.Third, withoutObs.Third; wq != woq && wq != lib.LIMIT && woq != lib.LIMIT {
					c.Violate("check-free-block-changes-outcome-on-authorize-query-authorize", fmt.Sprintf("Authorize, Query, Authorize on one authorizer: last outcome %s without the block, %s with it (position %d)", woq, wq, p), desc)
				}
				if wq, woq := wobs.AfterQuery, withoutAfterQuery; wq != woq && wq != lib.LIMIT && woq != lib.LIMIT {
					c.Violate("check-free-block-changes-outcome-after-query", fmt.Sprintf("with a Query before Authorize: outcome %s without the block, %s with it (position %d)", woq, wq, p), desc)
				}
				if sensitive {
					c.Count("leak_sensitive_pairs", 1)
					c.NT(core.JSON(desc))
				}
				if k == 0 && p == 1 && rep == 0 {
					c.Sample(map[string]any{"kind": "with/without pair", "token_without": gen.Texts(base.Blocks), "check_free_block": gen.Texts([]ast.Block{free})[0], "position": p, "authorizer": gen.AuthTexts(a), "class": without.Class, "leak_sensitive": sensitive})
				}
			}
		}
		// positive direction: authority-level facts (stated or derived) are visible to every block
		if len(d0.Closure) > 0 {
			keys := d0.Closure.Keys()
			// two times in three ask for a DERIVED fact (not stated by the authority block or the authorizer)
			stated := map[string]bool{}
			for _, sf := range base.Blocks[0].Facts {
				stated[sf.Key()] = true
			}
			for _, sf := range a.Facts {
				stated[sf.Key()] = true
			}
			derived := []string{}
			for _, k := range keys {
				if !stated[d0.Closure[k].Key()] {
					derived = append(derived, k)
				}
			}
			if len(derived) > 0 && r.Intn(3) != 0 {
				keys = derived
				c.Count("visibility_checks_on_derived_facts", 1)
			}
			f := d0.Closure[keys[r.Intn(len(keys))]]
			q := ast.Pred{Name: f.Name, Terms: make([]ast.Term, len(f.Terms))}
			for i, t := range f.Terms {
				if r.Intn(2) == 0 {
					q.Terms[i] = ast.Var(fmt.Sprintf("k%d", i))
				} else {
					q.Terms[i] = t
				}
			}
			asking := ast.Block{Checks: []ast.Check{{Queries: []ast.Rule{{Head: ast.P("query"), Body: []ast.Pred{q}}}}}}
			p := 1 + r.Intn(len(base.Blocks))
			tok, err := buildScenarioToken(c.Seed, fmt.Sprintf("c03v-%d-%d", c.Idx, rep), insertBlock(base.Blocks, asking, p))
			if err == nil {
				with := lib.Observe(tok.B, tok.Pub, a, nil)
				c.Eval(1)
				if with.Class != without.Class && with.Class != lib.LIMIT {
					c.Violate("authority-level-fact-invisible-to-block", fmt.Sprintf("a block check asking for the authority-level fact %s changed the outcome from %s to %s", f.Key(), without.Class, with.Class),
						map[string]any{"token_without": gen.Texts(base.Blocks), "asking_block": gen.Texts([]ast.Block{asking})[0], "position": p, "authorizer": gen.AuthTexts(a)})
				}
				c.Count("visibility_checks", 1)
				// the same on an authorizer that has already been through one Authorize (while it
				// was still empty): the content arrives afterwards, and what the authority rules
				// derive from the authorizer's facts must still reach the asking block
				var late lib.Class
				if pi := lib.Try(func() {
					az, err := tok.B.AuthorizerFor(biscuit.WithSingularRootPublicKey(tok.Pub), lib.BigLimits())
					if err != nil {
						late = lib.FAIL
						return
					}
					_ = az.Authorize()
					lib.AddContent(az, a)
					late = lib.Classify(az.Authorize())
				}); pi != nil {
					c.Violate("authorize-panic", pi.Msg, nil)
				} else if late != with.Class && late != lib.LIMIT && with.Class != lib.LIMIT {
					c.Violate("authority-level-fact-invisible-to-block-on-second-authorize", fmt.Sprintf("content added after a first Authorize on the same authorizer: outcome %s, a fresh authorizer with the same content gives %s (block asks for %s)", late, with.Class, f.Key()),
						map[string]any{"token": gen.Texts(tok.Blocks), "asking_block": gen.Texts([]ast.Block{asking})[0], "position": p, "authorizer": gen.AuthTexts(a)})
				}
				c.Eval(1)
			}
		}
	}
}

func init() {
	core.Register(&core.Prop{
		ID:    "C02",
		Level: "exploration",
		Rule: "each case: 4 scenarios (token with 1-3 blocks, built or re-loaded) x 3 authorizer contents generated from the token (so that it is refused for a repairable reason) x appended blocks from three sources: (i) builder API with adversarial content - ground instances of exactly the atoms that the policies, authorizer checks and token checks ask for, rules re-deriving them from authority-level facts, always-true checks, context; (ii) RAW blocks written by the independent writer R3 and signed with the token's own next secret: re-declared symbol tables, wildcard facts (variables inside facts), duplicated facts, unbound head variables, symbol indexes pointing into earlier tables or out of range, query()/allow() facts; (iii) the same block appended twice and after re-load. Oracle: child OK (first or second Authorize) while the parent is not OK => violation. " +
			"Non-trivial = distinct pairs whose parent is refused and whose appended block states or derives an atom some policy or check asks for.",
		Assumptions: []string{"large limits; a LIMIT outcome of the parent is inconclusive"},
		NumCases: func(tier string) int {
			if tier == "thorough" {
				return 36000
			}
			return 250
		},
		Run: c02Run,
		Floor: func(a *core.Agg) []string {
			u := []string{}
			if a.Cnt["nontrivial_pairs"] < 1200 {
				u = append(u, fmt.Sprintf("non-trivial pairs %d < 1200", a.Cnt["nontrivial_pairs"]))
			}
			if a.Cnt["limit_refusal_pairs"] < 30 {
				u = append(u, fmt.Sprintf("limit-refusal pairs %d < 30", a.Cnt["limit_refusal_pairs"]))
			}
			if a.Cnt["raw_child_loaded:raw-dangling-symbol-completed-by-child"] < 20 {
				u = append(u, "dangling-symbol pairs < 20")
			}
			for _, cl := range []string{"raw-plain-fact", "raw-wildcard-fact", "raw-foreign-symbol-indexes"} {
				if a.Cnt["raw_child_loaded:"+cl] == 0 {
					u = append(u, "raw block class never loaded: "+cl)
				}
			}
			return u
		},
	})
	core.Register(&core.Prop{
		ID:        "C03",
		MinCounts: map[string]int{"visibility_checks": 400, "visibility_checks_on_derived_facts": 80, "rule_only_blocks": 300},
		Level:     "exploration",
		Rule: "each case: 4 error-free scenarios; for each, 3 check-free blocks that state or derive exactly the atoms that policies, authorizer checks, authority checks and other blocks' checks ask for, inserted at EVERY position after the authority block; outcome class and the answers of one all-variable probe query per predicate must equal those of the token without the block. Leak sensitivity is measured with the reference authorizer R5 (would the class or the probe answers change if the block's facts/rules were visible at authority level). Positive direction: a block check asking for a randomly chosen fact of the reference authority-level closure (stated or derived) must not change the outcome. " +
			"Non-trivial = distinct leak-sensitive (token, block, position, authorizer) tuples.",
		Assumptions: []string{"error-free fragment (an erroring block rule legitimately aborts the whole authorization)"},
		NumCases: func(tier string) int {
			if tier == "thorough" {
				return 36000
			}
			return 250
		},
		Run: c03Run,
		Floor: func(a *core.Agg) []string {
			u := []string{}
			if a.Cnt["leak_sensitive_pairs"] < 500 {
				u = append(u, fmt.Sprintf("leak-sensitive pairs %d < 500", a.Cnt["leak_sensitive_pairs"]))
			}
			if a.Cnt["visibility_checks"] < 200 {
				u = append(u, "visibility checks < 200")
			}
			return u
		},
	})
}

func capLines(l []string, n int) []string {
	if len(l) <= n {
		return l
	}
	return append(append([]string{}, l[:n]...), fmt.Sprintf("... %d more", len(l)-n))
}
