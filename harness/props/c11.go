package props

import (
	"crypto/ed25519"
	"errors"
	"fmt"
	"regexp"
	"runtime"
	"sort"
	"strings"
	"time"

	biscuit "github.com/biscuit-auth/biscuit-go/v2"
	"github.com/biscuit-auth/biscuit-go/v2/datalog"

	"verif/harness/ast"
	"verif/harness/core"
	"verif/harness/dl"
	"verif/harness/lib"
	"verif/harness/ref"
)

// C11 - evaluation is bounded: limits honoured, no silent truncation, no stranded work.
// Four monitors: (a) sentinels vs the reference fixpoint, (b) duration limit, (c) options
// honoured by every entry point, (d) goroutine-profile quiescence after every outcome kind.

// ---- goroutine-profile monitor -------------------------------------------------------------

type gInfo struct {
	id    string
	state string
	text  string
}

var gHeader = regexp.MustCompile(`^goroutine (\d+) \[([^\],]+)`)

func libraryGoroutines() []gInfo {
	buf := make([]byte, 1<<20)
	for {
		n := runtime.Stack(buf, true)
		if n < len(buf) {
			buf = buf[:n]
			break
		}
		buf = make([]byte, 2*len(buf))
	}
	out := []gInfo{}
	for _, blk := range strings.Split(string(buf), "\n\n") {
		if !strings.Contains(blk, "biscuit-go/v2/datalog.") {
			continue
		}
		m := gHeader.FindStringSubmatch(blk)
		if m == nil {
			continue
		}
		out = append(out, gInfo{id: m[1], state: m[2], text: blk})
	}
	return out
}

func parked(state string) bool {
	return state == "chan send" || state == "chan receive" || state == "select" || strings.HasPrefix(state, "chan send (nil") || strings.HasPrefix(state, "chan receive (nil")
}

var c11KnownStranded = map[string]bool{}

// quiesce waits until every goroutine with a datalog frame is gone, or has been parked on a
// channel for `stable` consecutive polls (then it is blocked forever: the channels are private
// to the finished call). It returns the newly stranded goroutines; ok=false = inconclusive.
func quiesce(maxWait time.Duration) (stranded []gInfo, polls int, ok bool) {
	const stable = 5
	deadline := time.Now().Add(maxWait)
	streak := 0
	lastIDs := ""
	for {
		polls++
		gs := libraryGoroutines()
		live := []gInfo{}
		for _, g := range gs {
			if !c11KnownStranded[g.id] {
				live = append(live, g)
			}
		}
		if len(live) == 0 {
			return nil, polls, true
		}
		allParked := true
		ids := []string{}
		for _, g := range live {
			ids = append(ids, g.id)
			if !parked(g.state) {
				allParked = false
			}
		}
		sort.Strings(ids)
		key := strings.Join(ids, ",")
		if allParked && key == lastIDs {
			streak++
		} else {
			streak = 0
		}
		lastIDs = key
		if allParked && streak >= stable {
			for _, g := range live {
				c11KnownStranded[g.id] = true
			}
			return live, polls, true
		}
		if time.Now().After(deadline) {
			return nil, polls, false
		}
		time.Sleep(15 * time.Millisecond)
	}
}

// strandSite names where a stranded goroutine is parked (innermost datalog frame).
func strandSite(g gInfo) string {
	return g.state + " in " + core.PanicSite(g.text)
}

// ---- programs ------------------------------------------------------------------------------

func factsP(n int) []ast.Pred {
	out := []ast.Pred{}
	for i := 0; i < n; i++ {
		out = append(out, ast.P("p", ast.Int(int64(i))))
	}
	return out
}

var vX, vY, vZ = ast.Var("x"), ast.Var("y"), ast.Var("z")

// chain(n): n edges, reach needs n rounds
func chainProg(n int) ([]ast.Pred, []ast.Rule) {
	fs := []ast.Pred{ast.P("reach", ast.Int(0))}
	for i := 0; i < n; i++ {
		fs = append(fs, ast.P("edge", ast.Int(int64(i)), ast.Int(int64(i+1))))
	}
	return fs, []ast.Rule{{Head: ast.P("reach", vY), Body: []ast.Pred{ast.P("reach", vX), ast.P("edge", vX, vY)}}}
}

// ruleChain(n): step0() and n rules step{i+1}() <- step{i}(): needs n rounds, cheap per round
func ruleChainProg(n int) ([]ast.Pred, []ast.Rule) {
	rs := []ast.Rule{}
	for i := 0; i < n; i++ {
		rs = append(rs, ast.Rule{Head: ast.P(fmt.Sprintf("step%d", i+1)), Body: []ast.Pred{ast.P(fmt.Sprintf("step%d", i))}})
	}
	return []ast.Pred{ast.P("step0")}, rs
}

func c11ChainSizes(thorough bool) []int {
	if thorough {
		return []int{1, 2, 5, 20, 60, 99, 100, 101, 150}
	}
	return []int{1, 2, 5, 20, 60}
}

// explosive(n): n facts, pair(x,y) derives n^2 facts in one round
func explosiveProg(n int) ([]ast.Pred, []ast.Rule) {
	return factsP(n), []ast.Rule{{Head: ast.P("pair", vX, vY), Body: []ast.Pred{ast.P("p", vX), ast.P("p", vY)}}}
}

type runOutcome struct {
	Err     error
	Facts   []string
	Panic   *lib.PanicInfo
	Elapsed time.Duration
}

func runWorld(facts []ast.Pred, rules []ast.Rule, opts ...datalog.WorldOption) runOutcome {
	var o runOutcome
	s := dl.NewSyms()
	w := datalog.NewWorld(opts...)
	t0 := time.Now()
	o.Panic = lib.Try(func() {
		for _, f := range facts {
			w.AddFact(datalog.Fact{Predicate: s.Pred(f)})
		}
		for _, r := range rules {
			w.AddRule(s.Rule(r))
		}
		o.Err = w.Run(s.T)
		if o.Err == nil {
			o.Facts, _ = s.FactKeys(w.Facts())
		}
	})
	o.Elapsed = time.Since(t0)
	return o
}

func sentinelName(err error) string {
	switch {
	case err == nil:
		return "nil"
	case errors.Is(err, datalog.ErrWorldRunLimitMaxFacts):
		return "max-facts"
	case errors.Is(err, datalog.ErrWorldRunLimitMaxIterations):
		return "max-iterations"
	case errors.Is(err, datalog.ErrWorldRunLimitTimeout):
		return "timeout"
	}
	return "other:" + core.Head(err.Error(), 60)
}

// (a) sentinels and no silent truncation -----------------------------------------------------

func c11Sentinels(c *core.C) {
	r := c.R
	type prog struct {
		name  string
		facts []ast.Pred
		rules []ast.Rule
	}
	progs := []prog{}
	for _, n := range c11ChainSizes(c.Thorough()) {
		f, ru := chainProg(n)
		progs = append(progs, prog{fmt.Sprintf("chain-%d", n), f, ru})
	}
	for _, n := range []int{2, 5, 10, 31, 32, 40} {
		f, ru := explosiveProg(n)
		progs = append(progs, prog{fmt.Sprintf("explosive-%d", n), f, ru})
	}
	for i := 0; i < 6; i++ {
		p := c05Typed(r)
		progs = append(progs, prog{"random-typed", p.Facts, p.Rules})
		q := c05Chain(r)
		progs = append(progs, prog{"random-chain", q.Facts, q.Rules})
	}
	for _, p := range progs {
		want := ref.Fixpoint(p.facts, p.rules, 100000)
		if want.Diverged || want.Lenient || want.Err {
			continue
		}
		lfp := len(want.Facts)
		// limit grid around |LFP| and around the number of productive rounds
		mfs := []int{1, 2, lfp - 1, lfp, lfp + 1, lfp + 2, 2 * lfp, 1000000}
		mis := []int{0, 1, want.Rounds - 1, want.Rounds, want.Rounds + 1, want.Rounds + 2, 2*want.Rounds + 2, 100000}
		for _, mf := range mfs {
			for _, mi := range mis {
				if mf < 1 || mi < 0 {
					continue
				}
				if r.Intn(3) != 0 && !c.Thorough() {
					continue
				}
				c.Eval(1)
				o := runWorld(p.facts, p.rules, datalog.WithMaxFacts(mf), datalog.WithMaxIterations(mi), datalog.WithMaxDuration(60*time.Second))
				desc := map[string]any{"program": p.name, "facts": len(p.facts), "rules": keysOfRules(p.rules), "least_model_size": lfp, "productive_rounds": want.Rounds, "maxFacts": mf, "maxIterations": mi, "result": sentinelName(o.Err)}
				switch {
				case o.Panic != nil:
					c.Violate("run-panic/"+o.Panic.Site, o.Panic.Msg, desc)
				case o.Err == nil:
					if m, e := diffKeys(want.Facts.Keys(), o.Facts); len(m) > 0 || len(e) > 0 {
						c.Violate("silent-truncation", fmt.Sprintf("Run returned nil with %d facts, the least model has %d (missing %d, extra %d) under maxFacts=%d maxIterations=%d", len(o.Facts), lfp, len(m), len(e), mf, mi), desc)
					}
					if lfp > mf {
						c.Violate("fact-limit-ignored", fmt.Sprintf("least model has %d facts, maxFacts=%d, Run returned nil", lfp, mf), desc)
					}
				default:
					if !lib.IsLimit(o.Err) {
						c.Violate("undistinguishable-error", "an error-free program failed with an error that is none of the three limit sentinels: "+o.Err.Error(), desc)
					}
				}
				c.NT(fmt.Sprintf("%s/%d/%d/%s", p.name, mf, mi, sentinelName(o.Err)))
				c.Count("sentinel:"+sentinelName(o.Err), 1)
			}
		}
	}
	c.Sample(map[string]any{"kind": "limit grid", "programs": len(progs), "grid": "maxFacts in {1,2,|LFP|-1..|LFP|+2,2|LFP|,1e6} x maxIterations in {0,1,R-1..R+2,2R+2,1e5}"})
}

func keysOfRules(rs []ast.Rule) []string {
	out := []string{}
	for _, r := range rs {
		out = append(out, r.Key())
	}
	return out
}

// through the authorizer: a limit hit is never OK --------------------------------------------

func c11Token(c *core.C, label string, blocks []ast.Block) *lib.Token {
	t, err := buildScenarioToken(c.Seed, label, blocks)
	if err != nil {
		c.Violate("build-refused", err.Error(), nil)
		return nil
	}
	return t
}

var allowAll = ast.Policy{Allow: true, Queries: []ast.Rule{{Head: ast.P("query")}}}

func c11AuthorizerLimits(c *core.C) {
	// authority-level explosion and block-level explosion, small fact limits
	f, ru := explosiveProg(12) // 12 + 144 facts
	for _, where := range []string{"authority", "block", "middle-block"} {
		blocks := []ast.Block{{Facts: f, Rules: ru}}
		if where == "block" {
			blocks = []ast.Block{{Facts: f}, {Rules: ru}}
		}
		if where == "middle-block" {
			// the limit is hit in a block that is NOT the last one: later blocks must not hide it
			blocks = []ast.Block{{Facts: f}, {Rules: ru}, {Facts: []ast.Pred{ast.P("harmless", ast.Int(1))}}, {}}
		}
		tok := c11Token(c, "c11-lim-"+where, blocks)
		if tok == nil {
			return
		}
		for _, mf := range []int{5, 13, 100, 155, 156, 157, 200, 100000} {
			c.Eval(1)
			var cls lib.Class
			pi := lib.Try(func() {
				a, err := tok.B.AuthorizerFor(biscuit.WithSingularRootPublicKey(tok.Pub), biscuit.WithWorldOptions(datalog.WithMaxFacts(mf), datalog.WithMaxIterations(1000), datalog.WithMaxDuration(60*time.Second)))
				if err != nil {
					cls = lib.FAIL
					return
				}
				a.AddPolicy(allowAll.Lib())
				cls = lib.Classify(a.Authorize())
			})
			desc := map[string]any{"where": where, "maxFacts": mf, "least_model": 156, "class": cls}
			if pi != nil {
				c.Violate("authorize-panic/"+pi.Site, pi.Msg, desc)
				continue
			}
			if mf < 156 && cls == lib.OK {
				c.Violate("limit-hit-but-authorized/"+where, fmt.Sprintf("the %s-level least model has 156 facts, maxFacts=%d, Authorize returned OK", where, mf), desc)
			}
			if mf > 160 && cls != lib.OK {
				c.Violate("authorized-program-refused/"+where, fmt.Sprintf("maxFacts=%d is above the model size, Authorize returned %s", mf, cls), desc)
			}
			c.NT(fmt.Sprintf("authz-limit/%s/%d/%s", where, mf, cls))
		}
	}
}

// (b) duration --------------------------------------------------------------------------------

func c11Duration(c *core.C) {
	// ~350k combinations, constant head: long enough that no deadline below 100 ms can be met,
	// and nothing accumulates (the goroutine that keeps running after the timeout ends soon)
	facts := factsP(70)
	rules := []ast.Rule{{Head: ast.P("done", ast.Int(1)), Body: []ast.Pred{ast.P("p", vX), ast.P("p", vY), ast.P("p", vZ)}}}
	for _, d := range []time.Duration{0, time.Millisecond, 20 * time.Millisecond} {
		c.Eval(1)
		o := runWorld(facts, rules, datalog.WithMaxFacts(1000000000), datalog.WithMaxIterations(1000000000), datalog.WithMaxDuration(d))
		desc := map[string]any{"maxDuration": d.String(), "elapsed": o.Elapsed.String(), "result": sentinelName(o.Err)}
		if o.Panic != nil {
			c.Violate("run-panic/"+o.Panic.Site, o.Panic.Msg, desc)
			continue
		}
		if !errors.Is(o.Err, datalog.ErrWorldRunLimitTimeout) {
			c.Violate("deadline-not-reported", fmt.Sprintf("a 343000-combination join with maxDuration=%v returned %s after %v", d, sentinelName(o.Err), o.Elapsed), desc)
		}
		if o.Elapsed > d+10*time.Second {
			c.Violate("deadline-ignored", fmt.Sprintf("maxDuration=%v, Run returned after %v", d, o.Elapsed), desc)
		}
		c.NT("duration/" + d.String() + "/" + sentinelName(o.Err))
		c.Count("outcome:"+sentinelName(o.Err), 1)
		// the worker goroutine of the timed-out run must end by itself
		st, _, ok := quiesce(60 * time.Second)
		if !ok {
			c.Inconc("quiescence not reached within 60 s after a timeout")
		}
		for _, g := range st {
			c.Violate("stranded-goroutine/after-timeout/"+strandSite(g), "a goroutine started by the timed-out evaluation is blocked forever: "+strandSite(g), map[string]any{"desc": desc, "goroutine": g.text})
		}
	}
	// second program: the only answer comes at the very END of the enumeration, so a deadline
	// that interrupts the rule leaves an EMPTY partial result; that must not look like a fixpoint
	facts2 := append(factsP(90), ast.P("last", ast.Int(89)))
	rules2 := []ast.Rule{{Head: ast.P("late", vX), Body: []ast.Pred{ast.P("p", vX), ast.P("p", vY), ast.P("p", vZ), ast.P("last", vX)}}}
	for _, d := range []time.Duration{time.Millisecond, 5 * time.Millisecond, 25 * time.Millisecond} {
		c.Eval(1)
		o := runWorld(facts2, rules2, datalog.WithMaxFacts(1000000000), datalog.WithMaxIterations(1000000000), datalog.WithMaxDuration(d))
		desc := map[string]any{"program": "late($x) <- p($x), p($y), p($z), last($x) over 90 facts, last(89)", "maxDuration": d.String(), "elapsed": o.Elapsed.String(), "result": sentinelName(o.Err)}
		if o.Panic != nil {
			c.Violate("run-panic/"+o.Panic.Site, o.Panic.Msg, desc)
			continue
		}
		if o.Err == nil {
			found := false
			for _, k := range o.Facts {
				if k == "late(89)" {
					found = true
				}
			}
			if !found {
				c.Violate("silent-truncation/deadline-before-first-result", fmt.Sprintf("Run returned nil after %v with maxDuration=%v but late(89) is missing: an interrupted rule was taken for a fixpoint", o.Elapsed, d), desc)
			} else {
				c.Inconc("the 729000-combination join finished within the deadline")
			}
		} else if !errors.Is(o.Err, datalog.ErrWorldRunLimitTimeout) {
			c.Violate("deadline-not-reported", fmt.Sprintf("returned %s", sentinelName(o.Err)), desc)
		}
		c.NT("duration-late/" + d.String() + "/" + sentinelName(o.Err))
		c.Count("outcome:"+sentinelName(o.Err), 1)
		quiesce(60 * time.Second)
	}
	// third program: every fact matches every atom and an expression rejects every combination,
	// so the enumerator never sends a result and never meets a fact that does not match: the
	// deadline has to be noticed by the enumeration loop itself. Measured in logical steps (hook
	// combine.step), not in time: a run that reports the timeout only after it has examined ALL
	// 150^3 combinations did not stop at the deadline.
	facts3 := factsP(150)
	rules3 := []ast.Rule{{Head: ast.P("none", vX), Body: []ast.Pred{ast.P("p", vX), ast.P("p", vY), ast.P("p", vZ)}, Exprs: []ast.Expr{{ast.OV(vZ), ast.OV(ast.Int(0)), ast.OB(int(ast.BLessThan))}}}}
	for _, d := range []time.Duration{time.Millisecond, 10 * time.Millisecond} {
		c.Eval(1)
		before := datalog.VerifCounters()["combine.step"]
		o := runWorld(facts3, rules3, datalog.WithMaxFacts(1000000000), datalog.WithMaxIterations(1000000000), datalog.WithMaxDuration(d))
		quiesce(60 * time.Second)
		steps := datalog.VerifCounters()["combine.step"] - before
		total := int64(150 * 150 * 150)
		desc := map[string]any{"program": "none($x) <- p($x), p($y), p($z), $z < 0 over 150 facts", "maxDuration": d.String(), "elapsed": o.Elapsed.String(), "result": sentinelName(o.Err), "combinations_examined": steps, "combinations_total": total}
		switch {
		case o.Panic != nil:
			c.Violate("run-panic/"+o.Panic.Site, o.Panic.Msg, desc)
		case o.Err == nil:
			c.Inconc("the 3375000-combination join finished within the deadline")
		case !errors.Is(o.Err, datalog.ErrWorldRunLimitTimeout):
			c.Violate("deadline-not-reported", fmt.Sprintf("returned %s", sentinelName(o.Err)), desc)
		case steps >= total:
			c.Violate("deadline-not-observed-while-enumerating", fmt.Sprintf("maxDuration=%v: the timeout was reported, but only after all %d combinations had been examined (%v)", d, total, o.Elapsed), desc)
		}
		c.NT("duration-rejecting/" + d.String() + "/" + sentinelName(o.Err))
		c.Count("rejecting_join_runs", 1)
	}
	c.Sample(map[string]any{"kind": "duration limit", "programs": []string{"done(1) <- p($x), p($y), p($z) over 70 facts", "late($x) <- p($x), p($y), p($z), last($x) over 90 facts (answer only at the end)"}, "deadlines": "0, 1ms, 5ms, 20ms, 25ms"})
}

// (c) options honoured by every entry point ---------------------------------------------------

func c11EntryPoints(c *core.C) {
	f150, r150 := ruleChainProg(150)
	need150 := []ast.Block{{Facts: f150, Rules: r150, Checks: []ast.Check{{Queries: []ast.Rule{{Head: ast.P("query"), Body: []ast.Pred{ast.P("step150")}}}}}}}
	need150block := []ast.Block{{Facts: f150}, {Rules: r150, Checks: []ast.Check{{Queries: []ast.Rule{{Head: ast.P("query"), Body: []ast.Pred{ast.P("step150")}}}}}}}
	ten := []ast.Block{{Facts: factsP(10)}}
	// the limit is crossed only by the facts of a later block that has no rule of its own
	blockTen := []ast.Block{{Facts: []ast.Pred{ast.P("a", ast.Int(1)), ast.P("a", ast.Int(2))}}, {Facts: factsP(10), Checks: []ast.Check{{Queries: []ast.Rule{{Head: ast.P("query"), Body: []ast.Pred{ast.P("p", vX)}}}}}}}
	big := biscuit.WithWorldOptions(datalog.WithMaxIterations(10000), datalog.WithMaxFacts(100000), datalog.WithMaxDuration(60*time.Second))
	small := biscuit.WithWorldOptions(datalog.WithMaxFacts(3), datalog.WithMaxIterations(10000), datalog.WithMaxDuration(60*time.Second))
	type entry struct {
		name string
		mk   func(t *lib.Token, o biscuit.AuthorizerOption) (biscuit.Authorizer, error)
	}
	entries := []entry{
		{"NewVerifier", func(t *lib.Token, o biscuit.AuthorizerOption) (biscuit.Authorizer, error) {
			return biscuit.NewVerifier(t.B, o)
		}},
		{"AuthorizerFor", func(t *lib.Token, o biscuit.AuthorizerOption) (biscuit.Authorizer, error) {
			return t.B.AuthorizerFor(biscuit.WithSingularRootPublicKey(t.Pub), o)
		}},
		{"AuthorizerFor(key map)", func(t *lib.Token, o biscuit.AuthorizerOption) (biscuit.Authorizer, error) {
			return t.B.AuthorizerFor(biscuit.WithRootPublicKeys(map[uint32]ed25519.PublicKey{}, &t.Pub), o)
		}},
		{"Authorizer", func(t *lib.Token, o biscuit.AuthorizerOption) (biscuit.Authorizer, error) {
			return t.B.Authorizer(t.Pub, o)
		}},
	}
	toks := map[string]*lib.Token{"authority-150-rounds": c11Token(c, "c11-ep-a", need150), "block-150-rounds": c11Token(c, "c11-ep-b", need150block), "ten-facts": c11Token(c, "c11-ep-c", ten), "block-ten-facts": c11Token(c, "c11-ep-d", blockTen)}
	for _, t := range toks {
		if t == nil {
			return
		}
	}
	for _, e := range entries {
		for _, reload := range []bool{false, true} {
			for tn, tok := range toks {
				if reload {
					t2, err := tok.Reload()
					if err != nil {
						continue
					}
					tok = t2
				}
				c.Eval(1)
				opt := big
				if tn == "ten-facts" {
					opt = small
				}
				if tn == "block-ten-facts" {
					opt = biscuit.WithWorldOptions(datalog.WithMaxFacts(8), datalog.WithMaxIterations(10000), datalog.WithMaxDuration(60*time.Second))
				}
				var cls lib.Class
				var qerr error
				pi := lib.Try(func() {
					a, err := e.mk(tok, opt)
					if err != nil {
						cls = lib.FAIL
						return
					}
					a.AddPolicy(allowAll.Lib())
					cls = lib.Classify(a.Authorize())
					// Query on a fresh authorizer from the same entry point
					a2, err := e.mk(tok, opt)
					if err == nil {
						for _, f := range tok.Blocks[0].Facts {
							a2.AddFact(f.LibFact())
						}
						if tn == "ten-facts" {
							for _, r := range tok.Blocks[0].Rules {
								a2.AddRule(r.Lib())
							}
						}
						_, qerr = a2.Query(ast.Rule{Head: ast.P("out", vX), Body: []ast.Pred{ast.P("p", vX)}}.Lib())
					}
				})
				// the limits belong to the authorizer for its whole life: after its content was
				// loaded from a snapshot, and after a Reset, they are still the ones given at creation
				later := map[string]lib.Class{}
				if pi2 := lib.Try(func() {
					src, err := e.mk(tok, opt)
					if err != nil {
						return
					}
					src.AddPolicy(allowAll.Lib())
					snap, err := src.SerializePolicies()
					if err != nil {
						return
					}
					if a3, err := e.mk(tok, opt); err == nil {
						if err := a3.LoadPolicies(snap); err == nil {
							later["LoadPolicies"] = lib.Classify(a3.Authorize())
						}
					}
					if tn == "block-ten-facts" {
						// a check that has already failed when the block crosses the limit: the caller is still
						// told that evaluation was cut short (the limit error, not a plain list of failed checks)
						if a5, err := e.mk(tok, opt); err == nil {
							a5.AddCheck(ast.Check{Queries: []ast.Rule{{Head: ast.P("query"), Body: []ast.Pred{ast.P("nope")}}}}.Lib())
							a5.AddPolicy(allowAll.Lib())
							later["a failed authorizer check"] = lib.Classify(a5.Authorize())
						}
					}
					if a4, err := e.mk(tok, opt); err == nil {
						a4.AddPolicy(allowAll.Lib())
						a4.Reset()
						a4.AddPolicy(allowAll.Lib())
						later["Reset"] = lib.Classify(a4.Authorize())
					}
				}); pi2 != nil && pi == nil {
					pi = pi2
				}
				desc := map[string]any{"entry_point": e.name, "token": tn, "reloaded": reload, "class": cls, "query_error": fmt.Sprint(qerr), "after": later}
				if pi != nil {
					c.Violate("entry-point-panic/"+pi.Site, pi.Msg, desc)
					continue
				}
				for how, lc := range later {
					if tn == "block-ten-facts" {
						if lc != lib.LIMIT {
							c.Violate("fact-limit-not-enforced-in-block/"+e.name+"/after-"+how, fmt.Sprintf("%s, then %s: Authorize returned %s, expected the fact-limit sentinel", e.name, how, lc), desc)
						}
						continue
					}
					if tn == "ten-facts" && lc != lib.LIMIT {
						c.Violate("options-lost-after-"+how+"/"+e.name, fmt.Sprintf("%s with WithMaxFacts(3) on a 10-fact token, then %s: Authorize returned %s, expected the fact-limit sentinel", e.name, how, lc), desc)
					}
					if tn != "ten-facts" && lc != lib.OK {
						c.Violate("options-lost-after-"+how+"/"+e.name, fmt.Sprintf("%s with WithMaxIterations(10000) on a token needing 150 rounds (%s), then %s: Authorize returned %s", e.name, tn, how, lc), desc)
					}
					c.NT(fmt.Sprintf("entry-later/%s/%s/%s/%s", e.name, tn, how, lc))
				}
				if tn == "block-ten-facts" {
					if cls != lib.LIMIT {
						c.Violate("fact-limit-not-enforced-in-block/"+e.name, fmt.Sprintf("%s with WithMaxFacts(8): 2 authority facts + a later block with 10 facts and no rule: Authorize returned %s, expected the fact-limit sentinel", e.name, cls), desc)
					}
				} else if tn == "ten-facts" {
					if cls != lib.LIMIT {
						c.Violate("options-ignored/"+e.name, fmt.Sprintf("%s with WithMaxFacts(3) on a 10-fact token: Authorize returned %s, expected a limit sentinel", e.name, cls), desc)
					}
					if !lib.IsLimit(qerr) {
						c.Violate("options-ignored-by-query/"+e.name, fmt.Sprintf("%s with WithMaxFacts(3): Query over 10 facts returned %v", e.name, qerr), desc)
					}
				} else if cls != lib.OK {
					c.Violate("options-ignored/"+e.name, fmt.Sprintf("%s with WithMaxIterations(10000) on a token needing 150 rounds (%s): Authorize returned %s", e.name, tn, cls), desc)
				}
				c.NT(fmt.Sprintf("entry/%s/%s/%v/%s", e.name, tn, reload, cls))
			}
		}
	}
	// Query must evaluate (and bound) what was added AFTER a successful Authorize or an earlier Query
	for _, first := range []string{"Authorize", "Query"} {
		for _, lim := range []string{"tight", "generous"} {
			c.Eval(1)
			tok := toks["ten-facts"]
			opt := biscuit.WithWorldOptions(datalog.WithMaxIterations(3), datalog.WithMaxFacts(100000), datalog.WithMaxDuration(60*time.Second))
			if lim == "generous" {
				opt = big
			}
			var qerr error
			var answers int
			var cls lib.Class
			pi := lib.Try(func() {
				a, err := tok.B.AuthorizerFor(biscuit.WithSingularRootPublicKey(tok.Pub), opt)
				if err != nil {
					return
				}
				a.AddPolicy(allowAll.Lib())
				if first == "Authorize" {
					cls = lib.Classify(a.Authorize())
				} else {
					_, _ = a.Query(ast.Rule{Head: ast.P("out", vX), Body: []ast.Pred{ast.P("p", vX)}}.Lib())
				}
				fs, rs := ruleChainProg(6)
				for _, f := range fs {
					a.AddFact(f.LibFact())
				}
				for _, r := range rs {
					a.AddRule(r.Lib())
				}
				res, err := a.Query(ast.Rule{Head: ast.P("reached"), Body: []ast.Pred{ast.P("step6")}}.Lib())
				qerr, answers = err, len(res)
			})
			desc := map[string]any{"first_call": first, "limits": lim, "authorize_class": cls, "query_error": fmt.Sprint(qerr), "answers": answers}
			if pi != nil {
				c.Violate("entry-point-panic/"+pi.Site, pi.Msg, desc)
				continue
			}
			if lim == "tight" && !lib.IsLimit(qerr) {
				c.Violate("query-after-"+first+"-not-bounded", fmt.Sprintf("after %s, a 6-rule chain was added and queried under WithMaxIterations(3): Query returned %v with %d answers instead of the iteration-limit sentinel", first, qerr, answers), desc)
			}
			if lim == "generous" && (qerr != nil || answers != 1) {
				c.Violate("query-after-"+first+"-not-evaluated", fmt.Sprintf("after %s, a 6-rule chain was added: Query(step6) returned %v with %d answers, the least model has exactly one", first, qerr, answers), desc)
			}
			c.NT("query-after/" + first + "/" + lim)
		}
	}
	c.Sample(map[string]any{"kind": "entry points", "entries": []string{"NewVerifier", "AuthorizerFor", "AuthorizerFor(key map)", "Authorizer"}, "tokens": []string{"150-round chain in authority", "150-round chain in a later block", "10 facts with WithMaxFacts(3)"}})
}

// (d) no stranded goroutine -------------------------------------------------------------------

type c11Shape struct {
	name  string
	facts []ast.Pred
	rules []ast.Rule
	query *ast.Rule
	opts  []datalog.WorldOption
	delay map[string]time.Duration
}

func c11Shapes() []c11Shape {
	big := []datalog.WorldOption{datalog.WithMaxFacts(1000000), datalog.WithMaxIterations(100000), datalog.WithMaxDuration(60 * time.Second)}
	out := []c11Shape{}
	cf, cr := chainProg(8)
	out = append(out, c11Shape{name: "success", facts: cf, rules: cr, opts: big})
	out = append(out, c11Shape{name: "max-iterations", facts: cf, rules: cr, opts: []datalog.WorldOption{datalog.WithMaxIterations(3), datalog.WithMaxFacts(100000), datalog.WithMaxDuration(60 * time.Second)}})
	ef, er := explosiveProg(10)
	out = append(out, c11Shape{name: "max-facts", facts: ef, rules: er, opts: []datalog.WorldOption{datalog.WithMaxFacts(20), datalog.WithMaxIterations(1000), datalog.WithMaxDuration(60 * time.Second)}})
	// expression error at the first / middle / last match: 10 / $x == 1 fails for x = 0
	for _, pos := range []int{0, 5, 9} {
		fs := []ast.Pred{}
		for i := 0; i < 10; i++ {
			v := int64(i + 1)
			if i == pos {
				v = 0
			}
			fs = append(fs, ast.P("p", ast.Int(v)))
		}
		rule := ast.Rule{Head: ast.P("q", vX), Body: []ast.Pred{ast.P("p", vX)}, Exprs: []ast.Expr{{ast.OV(ast.Int(10)), ast.OV(vX), ast.OB(ast.BDiv), ast.OV(ast.Int(100)), ast.OB(ast.BLessThan)}}}
		out = append(out, c11Shape{name: fmt.Sprintf("expression-error-at-match-%d-of-10", pos+1), facts: fs, rules: []ast.Rule{rule}, opts: big})
		q := rule
		out = append(out, c11Shape{name: fmt.Sprintf("query-expression-error-at-match-%d-of-10", pos+1), facts: fs, query: &q, opts: big})
	}
	// invalid rule (head variable missing from the body) with 0, 1, 2, 50 matches
	for _, n := range []int{0, 1, 2, 50} {
		rule := ast.Rule{Head: ast.P("q", vY), Body: []ast.Pred{ast.P("p", vX)}}
		fs := append(factsP(n), ast.P("other", ast.Int(1)))
		out = append(out, c11Shape{name: fmt.Sprintf("invalid-rule-%d-matches", n), facts: fs, rules: []ast.Rule{rule}, opts: big})
		q := rule
		out = append(out, c11Shape{name: fmt.Sprintf("query-invalid-rule-%d-matches", n), facts: fs, query: &q, opts: big})
	}
	// deadline fires, then the worker reaches its send (delay hooks at existing suspension points)
	out = append(out, c11Shape{name: "deadline-then-result-send", facts: cf, rules: cr, opts: []datalog.WorldOption{datalog.WithMaxDuration(time.Millisecond), datalog.WithMaxFacts(100000), datalog.WithMaxIterations(1000)}, delay: map[string]time.Duration{"run.send": 30 * time.Millisecond}})
	out = append(out, c11Shape{name: "deadline-while-producer-sends", facts: factsP(5), rules: []ast.Rule{{Head: ast.P("q", vX), Body: []ast.Pred{ast.P("p", vX)}}}, opts: []datalog.WorldOption{datalog.WithMaxDuration(time.Millisecond), datalog.WithMaxFacts(100000), datalog.WithMaxIterations(1000)}, delay: map[string]time.Duration{"combine.send": 5 * time.Millisecond}})
	out = append(out, c11Shape{name: "deadline-zero", facts: cf, rules: cr, opts: []datalog.WorldOption{datalog.WithMaxDuration(0), datalog.WithMaxFacts(100000), datalog.WithMaxIterations(1000)}})
	out = append(out, c11Shape{name: "deadline-in-last-iteration", facts: factsP(40), rules: []ast.Rule{{Head: ast.P("done", ast.Int(1)), Body: []ast.Pred{ast.P("p", vX), ast.P("p", vY), ast.P("p", vZ)}}}, opts: []datalog.WorldOption{datalog.WithMaxDuration(time.Millisecond), datalog.WithMaxFacts(100000), datalog.WithMaxIterations(1000)}})
	return out
}

func hookBalance() (int64, int64) {
	cn := datalog.VerifCounters()
	return cn["combine.start"] - cn["combine.exit"], cn["run.iter"]
}

func c11RunShape(c *core.C, sh c11Shape) {
	c.Eval(1)
	for k, d := range sh.delay {
		datalog.VerifSetDelay(k, d)
	}
	s := dl.NewSyms()
	w := datalog.NewWorld(sh.opts...)
	outcome := ""
	pi := lib.Try(func() {
		for _, f := range sh.facts {
			w.AddFact(datalog.Fact{Predicate: s.Pred(f)})
		}
		for _, r := range sh.rules {
			w.AddRule(s.Rule(r))
		}
		if sh.query != nil {
			res := w.QueryRule(s.Rule(*sh.query), s.T)
			outcome = fmt.Sprintf("query:%d answers", len(*res))
		} else {
			outcome = sentinelName(w.Run(s.T))
		}
	})
	desc := map[string]any{"shape": sh.name, "outcome": outcome, "delays": fmt.Sprint(sh.delay)}
	if pi != nil {
		c.Violate("run-panic/"+pi.Site, pi.Msg, desc)
	}
	st, polls, ok := quiesce(60 * time.Second)
	for k := range sh.delay {
		datalog.VerifSetDelay(k, 0)
	}
	if !ok {
		c.Inconc("quiescence not reached within 60 s")
		return
	}
	c.Count("quiescence_checks", 1)
	c.Count("profile_polls", polls)
	for _, g := range st {
		c.Violate("stranded-goroutine/"+shapeClass(sh.name)+"/"+strandSite(g), fmt.Sprintf("after %s (%s) a goroutine started by the evaluation is blocked forever: %s", sh.name, outcome, strandSite(g)), map[string]any{"desc": desc, "goroutine": g.text})
	}
	open, _ := hookBalance()
	c.Count("hook_producers_open_at_quiescence", int(open))
	c.NT("shape/" + sh.name + "/" + outcome)
	c.Count("outcome:"+outcome, 1)
}

func shapeClass(n string) string {
	for _, p := range []string{"query-invalid-rule", "invalid-rule", "query-expression-error", "expression-error", "deadline"} {
		if strings.HasPrefix(n, p) {
			return p
		}
	}
	return n
}

// through the authorizer: stranded work after Authorize / Query with checks and policies
func c11AuthorizerQuiescence(c *core.C) {
	invalid := ast.Rule{Head: ast.P("query", vY), Body: []ast.Pred{ast.P("p", vX)}}
	blocks := []ast.Block{{Facts: factsP(20), Checks: []ast.Check{{Queries: []ast.Rule{invalid}}}}, {Rules: []ast.Rule{{Head: ast.P("q", vY), Body: []ast.Pred{ast.P("p", vX)}}}}}
	tok := c11Token(c, "c11-aq", blocks)
	if tok == nil {
		return
	}
	for _, variant := range []string{"authority-check-invalid", "policy-invalid", "authorizer-check-invalid", "authorizer-rule-invalid"} {
		c.Eval(1)
		t := tok
		if variant != "authority-check-invalid" {
			t = c11Token(c, "c11-aq2", []ast.Block{{Facts: factsP(20)}})
			if t == nil {
				return
			}
		}
		cls := lib.Class("")
		pi := lib.Try(func() {
			a, err := t.B.AuthorizerFor(biscuit.WithSingularRootPublicKey(t.Pub), lib.BigLimits())
			if err != nil {
				return
			}
			switch variant {
			case "policy-invalid":
				a.AddPolicy(ast.Policy{Allow: true, Queries: []ast.Rule{invalid}}.Lib())
			case "authorizer-check-invalid":
				a.AddCheck(ast.Check{Queries: []ast.Rule{invalid}}.Lib())
			case "authorizer-rule-invalid":
				a.AddRule(ast.Rule{Head: ast.P("q", vY), Body: []ast.Pred{ast.P("p", vX)}}.Lib())
			}
			a.AddPolicy(allowAll.Lib())
			cls = lib.Classify(a.Authorize())
			_, _ = a.Query(invalid.Lib())
		})
		desc := map[string]any{"variant": variant, "class": cls}
		if pi != nil {
			c.Violate("authorize-panic/"+pi.Site, pi.Msg, desc)
		}
		st, polls, ok := quiesce(60 * time.Second)
		if !ok {
			c.Inconc("quiescence not reached within 60 s")
			continue
		}
		c.Count("quiescence_checks", 1)
		c.Count("profile_polls", polls)
		for _, g := range st {
			c.Violate("stranded-goroutine/authorizer/"+strandSite(g), fmt.Sprintf("after Authorize/Query (%s, outcome %s) a goroutine is blocked forever: %s", variant, cls, strandSite(g)), map[string]any{"desc": desc, "goroutine": g.text})
		}
		c.NT("authz-quiescence/" + variant + "/" + string(cls))
	}
}

func c11Run(c *core.C) {
	t0 := time.Now()
	defer func() { c.Count(fmt.Sprintf("wall_ms_case_kind_%d", c.Idx%6), int(time.Since(t0).Milliseconds())) }()
	switch c.Idx % 6 {
	case 0:
		c11Sentinels(c)
	case 1:
		c11AuthorizerLimits(c)
		c11EntryPoints(c)
	case 2:
		c11Duration(c)
	case 3, 4:
		shapes := c11Shapes()
		c.R.Shuffle(len(shapes), func(i, j int) { shapes[i], shapes[j] = shapes[j], shapes[i] })
		for _, sh := range shapes {
			c11RunShape(c, sh)
		}
		c.Sample(map[string]any{"kind": "quiescence shapes", "shapes": func() []string {
			n := []string{}
			for _, s := range shapes {
				n = append(n, s.name)
			}
			sort.Strings(n)
			return n
		}()})
	default:
		c11AuthorizerQuiescence(c)
	}
}

func init() {
	core.Register(&core.Prop{
		ID:    "C11",
		Level: "exploration",
		Rule: "six case kinds in rotation. (a) limit grid: chain programs needing 1..150 rounds, one-round explosive joins, random typed and recursive programs x maxFacts in {1,2,|LFP|-1..|LFP|+2,2|LFP|,1e6} x maxIterations in {0,1,R-1..R+2,2R+2,1e5} with the reference fixpoint R1 as oracle: Run==nil => facts = least model; |LFP| > maxFacts => not nil; any error of an error-free program is one of the three sentinels. Through the authorizer (authority-level and block-level explosion): a limit hit is never OK. (b) duration: a 343000-combination join with maxDuration 0 / 1 ms / 20 ms must return the timeout sentinel (and within d+10 s). (c) entry points NewVerifier, AuthorizerFor (key and key map), Authorizer x built/re-loaded token: a 150-round program in the authority block and in a later block with WithMaxIterations(1e4) must authorize, a 10-fact token with WithMaxFacts(3) must give a limit sentinel from Authorize and from Query. (d) quiescence: after each of 27 outcome shapes (success, each limit, expression error at first/middle/last match, invalid rule with 0/1/2/50 matches, the same through QueryRule, deadline firing before the result send / while the producer sends / at zero / in the last iteration, forced with delay hooks) and after Authorize/Query with invalid checks, policies and rules, the goroutine profile is polled until every goroutine with a datalog frame is gone or has been parked on a channel for 5 consecutive polls (= blocked forever). " +
			"Non-trivial = distinct (program shape, limit configuration, outcome) triples.",
		Assumptions: []string{"a goroutine of the finished call parked in chan send/receive/select for 5 consecutive polls with no runnable library goroutine is blocked forever (its channels are private to the call)", "duration verdicts: sentinel, plus a 10 s slack that load cannot explain"},
		NumCases: func(tier string) int {
			if tier == "thorough" {
				return 600
			}
			return 48
		},
		// thorough: the last 48 cases (all six kinds, eight times) run in the -race build, so that an
		// evaluation goroutine that still touches the world after its call returned is reported
		RaceFrom: func(tier string) int {
			if tier == "thorough" {
				return 600 - 48
			}
			return -1
		},
		Run:          c11Run,
		CaseTimeoutS: 600,
		MaxWorkers:   8,
		Floor: func(a *core.Agg) []string {
			u := []string{}
			if a.Cnt["quiescence_checks"] < 200 {
				u = append(u, fmt.Sprintf("quiescence checks %d < 200", a.Cnt["quiescence_checks"]))
			}
			for _, s := range []string{"nil", "max-facts", "max-iterations", "timeout"} {
				if a.Cnt["sentinel:"+s]+a.Cnt["outcome:"+s] == 0 {
					u = append(u, "outcome never observed: "+s)
				}
			}
			return u
		},
	})
}
