package props

import (
	"fmt"
	"strings"

	biscuit "github.com/biscuit-auth/biscuit-go/v2"
	"github.com/biscuit-auth/biscuit-go/v2/parser"

	"verif/harness/ast"
	"verif/harness/core"
	"verif/harness/gen"
	"verif/harness/lib"
)

// C15 - the printed form of a block is faithful to what is enforced.
// Oracle: round trip  text -> parse -> build -> print -> parse  with structural equality
// (sets as sets, dates by Unix second) against the FIRST parse.

// printable domain of the property: strings without quote / backslash / newline, non-negative
// integers, dates from 1970 (4-digit years), sets of non-string elements.
func c15TermOK(t ast.Term) bool {
	switch t.K {
	case ast.KInt:
		return t.I >= 0
	case ast.KStr:
		return !strings.ContainsAny(t.S, "\"\\\n\r")
	case ast.KDate:
		return t.D <= 253402300799
	case ast.KSet:
		if len(t.Set) == 0 || t.HasDup() {
			return false
		}
		for _, e := range t.Set {
			// mixed-kind sets are refused by the builders (not expressible in a token)
			if e.K != t.Set[0].K || e.K == ast.KStr || e.K == ast.KSet || e.K == ast.KVar || !c15TermOK(e) {
				return false
			}
		}
	}
	return true
}

func c15PredOK(p ast.Pred) bool {
	for _, t := range p.Terms {
		if !c15TermOK(t) {
			return false
		}
	}
	return true
}

func c15RuleOK(r ast.Rule) bool {
	if !c15PredOK(r.Head) {
		return false
	}
	for _, b := range r.Body {
		if !c15PredOK(b) {
			return false
		}
	}
	for _, e := range r.Exprs {
		for _, o := range e {
			if o.K == ast.OpValue && !c15TermOK(*o.V) {
				return false
			}
		}
	}
	return true
}

func c15SafeParams() gen.Params {
	return gen.Params{"p": ast.Int(3), "param1": ast.Str("read"), "a:b": ast.Date(1136214245), "X": ast.Bytes([]byte{0xde, 0xad}), "9": ast.SetOf(ast.Int(1), ast.Int(2))}
}

func hasInterestingExpr(r ast.Rule) bool {
	for _, e := range r.Exprs {
		ops := 0
		for _, o := range e {
			if o.K != ast.OpValue {
				ops++
			}
		}
		if ops >= 2 {
			return true
		}
	}
	return false
}

// codeLines: non-empty lines of a printed non-authority block, without "Block {" / "}".
func codeLines(code string) []string {
	out := []string{}
	for _, l := range strings.Split(code, "\n") {
		t := strings.TrimSpace(l)
		if t == "" || t == "Block {" || t == "}" {
			continue
		}
		out = append(out, strings.TrimSuffix(t, ";"))
	}
	return out
}

// section extracts the single element of `name: [...]` from the authority block of String().
func section(s, name string) (string, bool) {
	i := strings.Index(s, "authority: Block {")
	if i < 0 {
		return "", false
	}
	s = s[i:]
	key := "\n\t\t" + name + ": ["
	j := strings.Index(s, key)
	if j < 0 {
		return "", false
	}
	rest := s[j+len(key):]
	k := strings.Index(rest, "]\n")
	if k < 0 {
		return "", false
	}
	// the element itself may contain "]" (sets): take the LAST "]" on this line
	line := rest
	if nl := strings.Index(rest, "\n"); nl >= 0 {
		line = rest[:nl]
	}
	return strings.TrimSuffix(line, "]"), true
}

func c15Run(c *core.C) {
	r := c.R
	p := parser.New()
	// printing is the same before and after serialization, also for tokens composed over an
	// application symbol table that repeats default names or entries (shared with C07)
	c07CustomBaseTable(c)
	for rep := 0; rep < 6; rep++ {
		params := c15SafeParams()
		depth := 1 + r.Intn(4)
		// first parse: one fact, one rule, one check, written in the documented grammar
		ft, wantF := gen.GFact(r, params)
		rt, wantR := gen.GRule(r, params, depth)
		ct, wantC := gen.GCheck(r, params, depth)
		ftext, rtext, ctext := gen.Layout(r, ft), gen.Layout(r, rt), gen.Layout(r, ct)
		lf, err1 := p.Fact(ftext, libParams(params))
		lr, err2 := p.Rule(rtext, libParams(params))
		lc, err3 := p.Check(ctext, libParams(params))
		var af ast.Pred
		var ar ast.Rule
		var ac ast.Check
		if err1 != nil || err2 != nil || err3 != nil {
			// the text is in the documented grammar (that the parser refuses it is C14's business):
			// the content it denotes is entered through the builders instead, and its printed
			// form must still parse back to it
			c.Count("first_parse_failed_denotation_used", 1)
			af, ar, ac = wantF, wantR, wantC
		} else {
			var e1, e2, e3 error
			af, e1 = ast.FromLibPred(lf.Predicate)
			ar, e2 = ast.FromLibRule(lr)
			ac, e3 = ast.FromLibCheck(lc)
			if e1 != nil || e2 != nil || e3 != nil {
				c.Count("first_parse_unconvertible", 1)
				continue
			}
		}
		ok := c15PredOK(af) && c15RuleOK(ar)
		for _, q := range ac.Queries {
			ok = ok && c15RuleOK(q)
		}
		if !ok {
			c.Count("outside_printable_domain", 1)
			continue
		}
		want := ast.Block{Facts: []ast.Pred{af}, Rules: []ast.Rule{ar}, Checks: []ast.Check{ac}}
		// build a token with the block at position pos (0 = authority)
		pos := r.Intn(4)
		filler := ast.Block{Facts: []ast.Pred{ast.P("filler", ast.Int(int64(rep)))}}
		blocks := []ast.Block{}
		for i := 0; i < pos; i++ {
			blocks = append(blocks, filler)
		}
		blocks = append(blocks, want)
		tok, err := buildScenarioToken(c.Seed, fmt.Sprintf("c15-%d-%d", c.Idx, rep), blocks)
		if err != nil {
			c.Violate("build-refused", err.Error(), map[string]any{"fact": ftext, "rule": rtext, "check": ctext})
			continue
		}
		c.Eval(1)
		desc := map[string]any{"position": pos, "fact_text": ftext, "rule_text": rtext, "check_text": ctext, "first_parse": want.Key()}
		var str1, str2 string
		var code1, code2 []string
		pi := lib.Try(func() {
			str1 = tok.B.String()
			code1 = tok.B.Code()
		})
		if pi != nil {
			c.Violate("print-panic/"+pi.Site, pi.Msg, desc)
			continue
		}
		re, err := tok.Reload()
		if err != nil {
			c.Violate("reload-refused", err.Error(), desc)
			continue
		}
		pi = lib.Try(func() {
			str2 = re.B.String()
			code2 = re.B.Code()
		})
		if pi != nil {
			c.Violate("print-panic-after-reload/"+pi.Site, pi.Msg, desc)
			continue
		}
		if str1 != str2 {
			c.Violate("print-differs-after-serialization/String", "String() differs before and after serialization", map[string]any{"desc": desc, "before": str1, "after": str2})
		}
		if core.JSON(code1) != core.JSON(code2) {
			c.Violate("print-differs-after-serialization/Code", "Code() differs before and after serialization", map[string]any{"desc": desc, "before": code1, "after": code2})
		}
		// read the printed block back
		var pf, pr, pc string
		if pos == 0 {
			var ok1, ok2, ok3 bool
			pf, ok1 = section(str2, "facts")
			pr, ok2 = section(str2, "rules")
			pc, ok3 = section(str2, "checks")
			if !ok1 || !ok2 || !ok3 {
				c.Violate("printed-authority-unreadable", "cannot locate facts/rules/checks sections in String()", map[string]any{"desc": desc, "string": str2})
				continue
			}
		} else {
			if len(code2) != pos {
				c.Violate("code-block-count", fmt.Sprintf("Code() has %d blocks, token has %d non-authority blocks", len(code2), pos), desc)
				continue
			}
			lines := codeLines(code2[pos-1])
			if len(lines) != 3 {
				c.Violate("printed-block-element-count", fmt.Sprintf("printed block has %d elements, 3 were put in", len(lines)), map[string]any{"desc": desc, "code": code2[pos-1]})
				continue
			}
			pf, pr, pc = lines[0], lines[1], lines[2]
		}
		desc["printed_fact"], desc["printed_rule"], desc["printed_check"] = pf, pr, pc
		var gf biscuit.Fact
		var gr biscuit.Rule
		var gc biscuit.Check
		var pe1, pe2, pe3 error
		pi = lib.Try(func() {
			gf, pe1 = p.Fact(pf, nil)
			gr, pe2 = p.Rule(pr, nil)
			gc, pe3 = p.Check(pc, nil)
		})
		if pi != nil {
			c.Violate("parse-panic-on-printed-text/"+pi.Site, pi.Msg, desc)
			continue
		}
		if pe1 != nil {
			c.Violate("printed-fact-does-not-parse", fmt.Sprintf("%q: %v", pf, pe1), desc)
		} else if x, err := ast.FromLibPred(gf.Predicate); err != nil || x.Key() != af.Key() {
			c.Violate("printed-fact-differs", fmt.Sprintf("printed %q parses to %s, the block holds %s", pf, x.Key(), af.Key()), desc)
		}
		if pe2 != nil {
			c.Violate("printed-rule-does-not-parse", fmt.Sprintf("%q: %v", core.Head(pr, 300), pe2), desc)
		} else if x, err := ast.FromLibRule(gr); err != nil || x.Key() != ar.Key() {
			c.Violate("printed-rule-differs", fmt.Sprintf("printed %q parses to %s, the block holds %s", core.Head(pr, 300), core.Head(x.Key(), 300), core.Head(ar.Key(), 300)), desc)
		}
		if pe3 != nil {
			c.Violate("printed-check-does-not-parse", fmt.Sprintf("%q: %v", core.Head(pc, 300), pe3), desc)
		} else if x, err := ast.FromLibCheck(gc); err != nil || x.Key() != ac.Key() {
			c.Violate("printed-check-differs", fmt.Sprintf("printed %q parses to %s, the block holds %s", core.Head(pc, 300), core.Head(x.Key(), 300), core.Head(ac.Key(), 300)), desc)
		}
		c.Count(fmt.Sprintf("position_%d", pos), 1)
		interesting := hasInterestingExpr(ar)
		for _, q := range ac.Queries {
			interesting = interesting || hasInterestingExpr(q)
		}
		if interesting {
			c.NT(want.Key())
			c.Count("blocks_with_nested_expressions", 1)
		}
		if rep == 0 {
			c.Sample(map[string]any{"kind": "print round trip", "position": pos, "rule_text": rtext, "printed_rule": pr, "check_text": ctext, "printed_check": pc})
		}
	}
}

func init() {
	core.Register(&core.Prop{
		ID:    "C15",
		Level: "exploration",
		Rule: "each case: 6 blocks of one grammar-generated fact, rule and check (syntax trees of depth <=5, every operator, required and redundant parentheses, random layout, parameters bound to values of the printable domain), parsed, kept only if the first parse lies in the printable domain of the property (strings without quote/backslash/newline, non-negative integers, dates 1970-9999, duplicate-free sets of non-string elements), built into a token at block position 0-3, printed (authority: String() with single-element sections; other blocks: Code(), one element per line), and parsed back; the second parse must equal the first structurally (sets as sets, dates by second). String() and Code() must be identical before and after Serialize/Unmarshal and must not panic. " +
			"Non-trivial = distinct blocks whose rule or check has an expression with >=2 operators (or a parenthesis).",
		Assumptions: []string{"the first parse is the reference for 'what was put in' (parser fidelity is C14's)"},
		NumCases: func(tier string) int {
			if tier == "thorough" {
				return 80000
			}
			return 800
		},
		Run: c15Run,
		Floor: func(a *core.Agg) []string {
			u := []string{}
			if a.Cnt["blocks_with_nested_expressions"] < 500 {
				u = append(u, fmt.Sprintf("blocks with nested expressions %d < 500", a.Cnt["blocks_with_nested_expressions"]))
			}
			for i := 0; i < 4; i++ {
				if a.Cnt[fmt.Sprintf("position_%d", i)] < 50 {
					u = append(u, fmt.Sprintf("position %d seen < 50 times", i))
				}
			}
			return u
		},
	})
}
