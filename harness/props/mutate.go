package props

import (
	"crypto/ed25519"
	"fmt"
	"math/rand"

	"verif/harness/ast"
	"verif/harness/lib"
	"verif/harness/wire"
)

// Mutation catalogue for the chain monitors (C01, C09) - DESIGN appendix C.
// Every mutant is decided by the independent chain verifier, never by its class name.

type Mutant struct {
	Class string
	Bytes []byte
	// MustAccept: a spec-conformant chain written and signed by R3 or a byte-identical
	// re-encoding of a library token (accept obligation).
	MustAccept bool
}

type mutator struct {
	r    *rand.Rand
	seed int64
	n    int
	out  []Mutant
}

func (m *mutator) keys(label string) (ed25519.PublicKey, ed25519.PrivateKey) {
	m.n++
	return lib.KeyPair(m.seed, fmt.Sprintf("attacker-%s-%d", label, m.n))
}

func (m *mutator) add(class string, t *wire.Token) {
	m.out = append(m.out, Mutant{Class: class, Bytes: t.Encode()})
}

func flipBit(b []byte, bit int) []byte {
	c := append([]byte{}, b...)
	if len(c) == 0 {
		return c
	}
	bit %= len(c) * 8
	c[bit/8] ^= 1 << uint(bit%8)
	return c
}

// attackerBlock is a spec-conformant block an attacker might want to add.
func attackerBlock(tab *wire.Table) []byte {
	return tab.WBlock(ast.Block{Facts: []ast.Pred{ast.P("right", ast.Str("file1"), ast.Str("write"))}}).Encode()
}

// chainMutants derives the catalogue from one envelope; others are envelopes of the same
// family (same root) and strangers are envelopes signed by another root.
func chainMutants(r *rand.Rand, seed int64, base *wire.Token, others, strangers []*wire.Token) []Mutant {
	m := &mutator{r: r, seed: seed}
	all := base.All()
	nb := len(all)

	// M13 control: byte-identical re-encoding
	m.out = append(m.out, Mutant{Class: "M13-reencode", Bytes: base.Encode(), MustAccept: true})

	// M1 bit flips in every signed field and in the proof (8 sampled bits each)
	for i := 0; i < nb; i++ {
		for k := 0; k < 8; k++ {
			t := base.Clone()
			a := t.All()
			switch k % 3 {
			case 0:
				if len(a[i].Block) == 0 {
					continue
				}
				a[i].Block = flipBit(a[i].Block, r.Intn(len(a[i].Block)*8))
				t.SetAll(a)
				m.add("M1-flip-block", t)
			case 1:
				a[i].Key = flipBit(a[i].Key, r.Intn(256))
				t.SetAll(a)
				m.add("M1-flip-nextkey", t)
			case 2:
				a[i].Sig = flipBit(a[i].Sig, r.Intn(512))
				t.SetAll(a)
				m.add("M1-flip-signature", t)
			}
		}
	}
	for k := 0; k < 8 && len(base.Proof) > 0; k++ {
		t := base.Clone()
		t.Proof = flipBit(t.Proof, r.Intn(len(t.Proof)*8))
		m.add("M1-flip-proof", t)
	}

	// M2 swap next keys / signatures between positions
	if nb >= 2 {
		i, j := r.Intn(nb), r.Intn(nb)
		if i != j {
			t := base.Clone()
			a := t.All()
			a[i].Key, a[j].Key = a[j].Key, a[i].Key
			t.SetAll(a)
			m.add("M2-swap-nextkeys", t)
			t = base.Clone()
			a = t.All()
			a[i].Sig, a[j].Sig = a[j].Sig, a[i].Sig
			t.SetAll(a)
			m.add("M2-swap-signatures", t)
		}
	}

	// M3 substitute next key i by an attacker key, alone and with the suffix re-signed
	for i := 0; i < nb; i++ {
		apub, apriv := m.keys("m3")
		t := base.Clone()
		a := t.All()
		a[i].Key = apub
		t.SetAll(a)
		m.add("M3-rekey-alone", t)
		// re-sign every later block with attacker keys, and close with the attacker's secret
		t = base.Clone()
		a = t.All()
		a[i].Key = apub
		signer := apriv
		for k := i + 1; k < nb; k++ {
			npub, npriv := m.keys("m3s")
			a[k] = wire.Sign(signer, a[k].Block, npub)
			signer = npriv
		}
		t.SetAll(a)
		t.ProofKind, t.Proof = wire.ProofSecret, signer.Seed()
		m.add("M3-rekey-resign-suffix", t)
		t2 := t.Clone()
		a2 := t2.All()
		t2.ProofKind, t2.Proof = wire.ProofFinal, wire.SealSig(signer, a2[len(a2)-1])
		m.add("M3-rekey-resign-suffix-sealed", t2)
	}

	// M4 swap / duplicate / delete / rotate blocks
	if nb >= 2 {
		i, j := r.Intn(nb), r.Intn(nb)
		if i != j {
			t := base.Clone()
			a := t.All()
			a[i], a[j] = a[j], a[i]
			t.SetAll(a)
			m.add("M4-swap-blocks", t)
		}
		t := base.Clone()
		a := t.All()
		a = append(a[1:], a[0])
		t.SetAll(a)
		m.add("M4-rotate-blocks", t)
		k := 1 + r.Intn(nb-1)
		t = base.Clone()
		a = t.All()
		a = append(a[:k:k], a[k+1:]...)
		t.SetAll(a)
		m.add("M4-delete-block", t)
	}
	{
		k := r.Intn(nb)
		t := base.Clone()
		a := t.All()
		dup := append(append(append([]wire.Signed{}, a[:k+1]...), a[k]), a[k+1:]...)
		t.SetAll(dup)
		m.add("M4-duplicate-block", t)
	}

	// M5 truncate to a prefix with various proofs
	for k := 1; k < nb; k++ {
		t := base.Clone()
		a := t.All()[:k]
		t.SetAll(a)
		m.add("M5-truncate-original-proof", t)
		_, apriv := m.keys("m5")
		t2 := t.Clone()
		t2.ProofKind, t2.Proof = wire.ProofSecret, apriv.Seed()
		m.add("M5-truncate-attacker-secret", t2)
		t3 := t.Clone()
		t3.ProofKind, t3.Proof = wire.ProofFinal, wire.SealSig(apriv, a[len(a)-1])
		m.add("M5-truncate-attacker-seal", t3)
		for _, o := range others {
			if len(o.All()) == k {
				t4 := t.Clone()
				t4.ProofKind, t4.Proof = o.ProofKind, append([]byte{}, o.Proof...)
				m.add("M5-truncate-sibling-proof", t4)
				break
			}
		}
	}

	// M6 splice a block of another token (same root, other root)
	for si, src := range [][]*wire.Token{others, strangers} {
		if len(src) == 0 {
			continue
		}
		o := src[r.Intn(len(src))]
		oa := o.All()
		t := base.Clone()
		a := t.All()
		i := r.Intn(nb)
		a[i] = oa[r.Intn(len(oa))].Clone()
		t.SetAll(a)
		cl := "M6-splice-same-root"
		if si == 1 {
			cl = "M6-splice-other-root"
		}
		m.add(cl, t)
		// insert (not replace)
		t = base.Clone()
		a = t.All()
		ins := oa[r.Intn(len(oa))].Clone()
		a = append(append(append([]wire.Signed{}, a[:i+1]...), ins), a[i+1:]...)
		t.SetAll(a)
		m.add(cl+"-insert", t)
		// foreign proof
		t = base.Clone()
		t.ProofKind, t.Proof = o.ProofKind, append([]byte{}, o.Proof...)
		m.add(cl+"-proof", t)
	}

	// M7 proof kind swaps
	{
		t := base.Clone()
		if t.ProofKind == wire.ProofSecret {
			t.ProofKind = wire.ProofFinal
		} else {
			t.ProofKind = wire.ProofSecret
		}
		m.add("M7-proof-kind-swap", t)
		t = base.Clone()
		t.ProofKind, t.Proof = wire.ProofNone, nil
		m.add("M7-proof-empty", t)
		t = base.Clone()
		t.Proof = nil
		m.add("M7-proof-zero-length", t)
		t = base.Clone()
		t.ProofKind, t.Proof = wire.ProofFinal, make([]byte, 64)
		m.add("M7-proof-zero-seal", t)
		if base.ProofKind == wire.ProofSecret && len(base.Proof) == 32 {
			// what a holder can really do: seal with the known secret (legitimate)
			priv := ed25519.NewKeyFromSeed(base.Proof)
			t = base.Clone()
			a := t.All()
			t.ProofKind, t.Proof = wire.ProofFinal, wire.SealSig(priv, a[len(a)-1])
			m.out = append(m.out, Mutant{Class: "M13-holder-seals", Bytes: t.Encode(), MustAccept: true})
			// seal that covers the block bytes only (not key and signature)
			t = base.Clone()
			t.ProofKind, t.Proof = wire.ProofFinal, ed25519.Sign(priv, a[len(a)-1].Block)
			m.add("M7-seal-over-block-only", t)
		}
	}

	// M7b secrets of other shapes that END or START with the last announced key: the 64-byte
	// "expanded private key" form (seed || public key) must not be accepted as a next secret
	{
		a := base.All()
		lastKey := a[len(a)-1].Key
		junk := make([]byte, 32)
		r.Read(junk)
		for i, p := range [][]byte{
			append(append([]byte{}, junk...), lastKey...),
			append(append([]byte{}, lastKey...), junk...),
			append(append([]byte{}, lastKey...), lastKey...),
			append([]byte{}, lastKey...),
		} {
			t := base.Clone()
			t.ProofKind, t.Proof = wire.ProofSecret, p
			m.add("M7-secret-built-from-announced-key", t)
			if i == 0 && len(a) > 1 {
				// the same on a truncated prefix: strip the last block, "prove" with junk || key
				t2 := base.Clone()
				t2.SetAll(a[:len(a)-1])
				pk := a[len(a)-2].Key
				t2.ProofKind, t2.Proof = wire.ProofSecret, append(append([]byte{}, junk...), pk...)
				m.add("M7-secret-built-from-announced-key", t2)
			}
		}
		t := base.Clone()
		t.ProofKind, t.Proof = wire.ProofFinal, append(append([]byte{}, junk...), lastKey...)
		m.add("M7-seal-built-from-announced-key", t)
	}

	// M8 authority re-signed by an attacker root (whole chain re-signed)
	{
		_, aroot := m.keys("m8root")
		raw := [][]byte{}
		for _, s := range all {
			raw = append(raw, s.Block)
		}
		t, _ := wire.BuildToken(aroot, raw, func() (ed25519.PublicKey, ed25519.PrivateKey) { return m.keys("m8") }, base.RootKeyID)
		m.add("M8-resigned-by-attacker-root", t)
		// only the authority re-signed, rest kept
		t2 := base.Clone()
		a := t2.All()
		a[0] = wire.Sign(aroot, a[0].Block, a[0].Key)
		t2.SetAll(a)
		m.add("M8-authority-resigned-keep-rest", t2)
	}

	// M9 algorithm numbers
	for _, alg := range []uint64{1, 2, 1 << 31} {
		t := base.Clone()
		a := t.All()
		i := r.Intn(nb)
		a[i].Alg = alg
		t.SetAll(a)
		m.add("M9-algorithm", t)
	}

	// M10 key / signature lengths
	for _, d := range []int{-1, 1, -32, 32} {
		t := base.Clone()
		a := t.All()
		i := r.Intn(nb)
		a[i].Key = resize(a[i].Key, len(a[i].Key)+d)
		t.SetAll(a)
		m.add("M10-key-length", t)
		t = base.Clone()
		a = t.All()
		a[i].Sig = resize(a[i].Sig, len(a[i].Sig)+d)
		t.SetAll(a)
		m.add("M10-signature-length", t)
	}
	for _, n := range []int{0, 1, 31, 33, 63, 64, 65} {
		t := base.Clone()
		t.Proof = resize(t.Proof, n)
		m.add("M10-proof-length", t)
	}

	// M11 append an attacker block: to a sealed token (no secret known) and, legitimately,
	// to an unsealed one with the known secret
	{
		tab := &wire.Table{}
		for _, s := range all {
			if wb, err := wire.DecodeBlock(s.Block); err == nil {
				tab.Syms = append(tab.Syms, wb.Symbols...)
			}
		}
		blk := attackerBlock(tab)
		npub, npriv := m.keys("m11")
		_, guess := m.keys("m11guess")
		t := base.Clone()
		t.Blocks = append(t.Blocks, wire.Sign(guess, blk, npub))
		t.ProofKind, t.Proof = wire.ProofSecret, npriv.Seed()
		m.add("M11-append-with-guessed-key", t)
		if base.ProofKind == wire.ProofSecret && len(base.Proof) == 32 {
			priv := ed25519.NewKeyFromSeed(base.Proof)
			t = base.Clone()
			t.Blocks = append(t.Blocks, wire.Sign(priv, blk, npub))
			t.ProofKind, t.Proof = wire.ProofSecret, npriv.Seed()
			m.out = append(m.out, Mutant{Class: "M13-holder-appends", Bytes: t.Encode(), MustAccept: true})
		} else {
			// sealed: keep the seal, add a block "signed" by the seal bytes' key guess
			t = base.Clone()
			t.Blocks = append(t.Blocks, wire.Sign(guess, blk, npub))
			m.add("M11-append-to-sealed-keep-seal", t)
		}
	}

	// M12 raw byte flips / truncation of the serialized form
	ser := base.Encode()
	for k := 0; k < 12; k++ {
		m.out = append(m.out, Mutant{Class: "M12-raw-bitflip", Bytes: flipBit(ser, r.Intn(len(ser)*8))})
	}
	for k := 0; k < 4; k++ {
		m.out = append(m.out, Mutant{Class: "M12-raw-truncate", Bytes: append([]byte{}, ser[:r.Intn(len(ser))]...)})
	}
	return m.out
}

func resize(b []byte, n int) []byte {
	if n < 0 {
		n = 0
	}
	out := make([]byte, n)
	copy(out, b)
	return out
}

// freshChain writes a complete spec-conformant token with R3 only.
func freshChain(seed int64, label string, root ed25519.PrivateKey, blocks []ast.Block, keyID *uint32, sealed bool) []byte {
	tab := &wire.Table{}
	raw := [][]byte{}
	for _, b := range blocks {
		raw = append(raw, tab.WBlock(b).Encode())
	}
	n := 0
	t, last := wire.BuildToken(root, raw, func() (ed25519.PublicKey, ed25519.PrivateKey) {
		n++
		return lib.KeyPair(seed, fmt.Sprintf("fresh-%s-%d", label, n))
	}, keyID)
	if sealed {
		a := t.All()
		t.ProofKind, t.Proof = wire.ProofFinal, wire.SealSig(last, a[len(a)-1])
	}
	return t.Encode()
}
