package props

import (
	"fmt"
	"math/rand"
	"strings"

	biscuit "github.com/biscuit-auth/biscuit-go/v2"
	"github.com/biscuit-auth/biscuit-go/v2/parser"

	"verif/harness/ast"
	"verif/harness/core"
	"verif/harness/gen"
	"verif/harness/lib"
)

// C14 - the Datalog parser denotes exactly the documented grammar and never panics.
// Oracle: R4 (grammar generator: expected value computed from the tree) + panic monitor +
// add-safety monitor (every successfully parsed element is added to a Builder, a BlockBuilder
// and an Authorizer).

func libParams(p gen.Params) parser.ParametersMap {
	if len(p) == 0 {
		return nil
	}
	out := parser.ParametersMap{}
	for k, v := range p {
		out[k] = v.Lib()
	}
	return out
}

var c14Host *lib.Token

func c14HostToken() *lib.Token {
	if c14Host == nil {
		_, priv := lib.KeyPair(1, "c14-host")
		t, err := lib.Build(priv, lib.NewDetRand(1, "c14-host"), []ast.Block{{Facts: []ast.Pred{ast.P("right", ast.Str("file1"), ast.Str("read"))}}}, nil)
		if err != nil {
			panic(err)
		}
		c14Host = t
	}
	return c14Host
}

// addSafety adds parsed elements to every kind of builder; a panic is a violation.
func addSafety(c *core.C, what, text string, facts []biscuit.Fact, rules []biscuit.Rule, checks []biscuit.Check, policies []biscuit.Policy) {
	host := c14HostToken()
	pi := lib.Try(func() {
		bld := biscuit.NewBuilder(host.Priv)
		bb := host.B.CreateBlock()
		az, err := host.B.AuthorizerFor(biscuit.WithSingularRootPublicKey(host.Pub))
		for _, f := range facts {
			_ = bld.AddAuthorityFact(f)
			_ = bb.AddFact(f)
			if err == nil {
				az.AddFact(f)
			}
			_ = f.String()
		}
		for _, r := range rules {
			_ = bld.AddAuthorityRule(r)
			_ = bb.AddRule(r)
			if err == nil {
				az.AddRule(r)
			}
		}
		for _, ch := range checks {
			_ = bld.AddAuthorityCheck(ch)
			_ = bb.AddCheck(ch)
			if err == nil {
				az.AddCheck(ch)
			}
		}
		for _, p := range policies {
			if err == nil {
				az.AddPolicy(p)
			}
		}
	})
	if pi != nil {
		c.Violate("add-panic/"+pi.Site+"/"+what, fmt.Sprintf("a successfully parsed %s panicked when added to a builder/authorizer: %s", what, pi.Msg), map[string]any{"text": text, "panic": pi})
	}
}

func c14Mismatch(c *core.C, what, text string, params gen.Params, want, got string, shape string) {
	c.Violate("parse-mismatch/"+what, fmt.Sprintf("%s %q parsed to %s, the grammar denotes %s", what, core.Head(text, 200), core.Head(got, 300), core.Head(want, 300)),
		map[string]any{"text": text, "params": fmt.Sprint(params), "expected": want, "parsed": got})
}

// positive cases ------------------------------------------------------------------------------

// texts that are refused only after part of an expression has been converted
var c14HalfWayErrors = []string{
	"check if 7 + {missing} == 8",
	"check if 1 < 2 && $y == hex:abc",
	"check if 1 < 2 || $d < 2023-13-01T00:00:00Z",
	"check if true && [1, $v].contains(1)",
	"check if \"a\".starts_with(\"a\") && 3 * {nope} > 1",
}

func c14Positive(c *core.C) {
	r := c.R
	p := parser.New()
	for i := 0; i < 12; i++ {
		params := gen.Params{}
		kind := r.Intn(6)
		depth := 1 + r.Intn(5)
		c.Eval(1)
		if i%2 == 1 {
			// a parse that fails half-way through an expression comes first (same parser object,
			// then the package-level helpers): what the next, valid text denotes must not depend on it
			bad := c14HalfWayErrors[r.Intn(len(c14HalfWayErrors))]
			lib.Try(func() {
				_, _ = p.Check(bad, nil)
				_, _ = p.Rule("r($x) <- p($x), "+bad[len("check if "):], nil)
				_, _ = parser.FromStringCheck(bad)
			})
			c.Count("parses_after_a_failed_parse", 1)
		}
		switch kind {
		case 0:
			toks, want := gen.GFact(r, params)
			text := gen.Layout(r, toks)
			var f biscuit.Fact
			var err error
			if pi := lib.Try(func() { f, err = parseFact(p, r, text, libParams(params)) }); pi != nil {
				c.Violate("parse-panic/"+pi.Site+"/fact", pi.Msg, map[string]any{"text": text})
				continue
			}
			if err != nil {
				c.Violate("parse-rejects-grammar-text/fact", fmt.Sprintf("fact %q rejected: %v", text, err), map[string]any{"text": text, "params": fmt.Sprint(params)})
				continue
			}
			got, cerr := ast.FromLibPred(f.Predicate)
			if cerr != nil || got.Key() != want.Key() {
				c14Mismatch(c, "fact", text, params, want.Key(), got.Key()+fmt.Sprint(cerr), "")
			}
			addSafety(c, "fact", text, []biscuit.Fact{f}, nil, nil, nil)
			c.NT("fact/" + fmt.Sprint(len(want.Terms)))
		case 1, 2:
			toks, want := gen.GRule(r, params, depth)
			text := gen.Layout(r, toks)
			var ru biscuit.Rule
			var err error
			if pi := lib.Try(func() {
				if r.Intn(2) == 0 {
					ru, err = p.Rule(text, libParams(params))
				} else {
					ru, err = parser.FromStringRuleWithParams(text, libParams(params))
				}
			}); pi != nil {
				c.Violate("parse-panic/"+pi.Site+"/rule", pi.Msg, map[string]any{"text": text})
				continue
			}
			if err != nil {
				c.Violate("parse-rejects-grammar-text/rule", fmt.Sprintf("rule %q rejected: %v", core.Head(text, 300), err), map[string]any{"text": text, "params": fmt.Sprint(params)})
				continue
			}
			got, cerr := ast.FromLibRule(ru)
			if cerr != nil || got.Key() != want.Key() {
				c14Mismatch(c, "rule", text, params, want.Key(), got.Key()+fmt.Sprint(cerr), "")
			}
			addSafety(c, "rule", text, nil, []biscuit.Rule{ru}, nil, nil)
			for _, e := range want.Exprs {
				c.NT("expr-shape/" + e.Shape())
				c14Adjacency(c, e)
			}
			if i == 0 {
				c.Sample(map[string]any{"kind": "grammar rule", "text": text, "expected": want.Key(), "params": fmt.Sprint(params)})
			}
		case 3:
			toks, want := gen.GCheck(r, params, depth)
			text := gen.Layout(r, toks)
			var ch biscuit.Check
			var err error
			if pi := lib.Try(func() {
				switch r.Intn(8) {
				default:
					ch, err = p.Check(text, libParams(params))
				case 1:
					ch, err = parser.FromStringCheckWithParams(text, libParams(params))
				case 2:
					// the panicking variant is only asked once the text is known to parse
					if ch, err = p.Check(text, libParams(params)); err == nil {
						ch = p.Must().Check(text, libParams(params))
					}
				}
			}); pi != nil {
				c.Violate("parse-panic/"+pi.Site+"/check", pi.Msg, map[string]any{"text": text})
				continue
			}
			if err != nil {
				c.Violate("parse-rejects-grammar-text/check", fmt.Sprintf("check %q rejected: %v", core.Head(text, 300), err), map[string]any{"text": text, "params": fmt.Sprint(params)})
				continue
			}
			got, cerr := ast.FromLibCheck(ch)
			if cerr != nil || got.Key() != want.Key() {
				c14Mismatch(c, "check", text, params, want.Key(), got.Key()+fmt.Sprint(cerr), "")
			}
			addSafety(c, "check", text, nil, nil, []biscuit.Check{ch}, nil)
			c.NT(fmt.Sprintf("check-queries/%d", len(want.Queries)))
			for _, q := range want.Queries {
				for _, e := range q.Exprs {
					c.NT("expr-shape/" + e.Shape())
					c14Adjacency(c, e)
				}
			}
		case 4:
			toks, want := gen.GPolicy(r, params, depth)
			text := gen.Layout(r, toks)
			var po biscuit.Policy
			var err error
			if pi := lib.Try(func() {
				switch r.Intn(8) {
				default:
					po, err = p.Policy(text, libParams(params))
				case 1:
					po, err = parser.FromStringPolicyWithParams(text, libParams(params))
				case 2:
					if po, err = p.Policy(text, libParams(params)); err == nil {
						po = p.Must().Policy(text, libParams(params))
					}
				}
			}); pi != nil {
				c.Violate("parse-panic/"+pi.Site+"/policy", pi.Msg, map[string]any{"text": text})
				continue
			}
			if err != nil {
				c.Violate("parse-rejects-grammar-text/policy", fmt.Sprintf("policy %q rejected: %v", core.Head(text, 300), err), map[string]any{"text": text, "params": fmt.Sprint(params)})
				continue
			}
			got, cerr := ast.FromLibPolicy(po)
			if cerr != nil || got.Key() != want.Key() {
				c14Mismatch(c, "policy", text, params, want.Key(), got.Key()+fmt.Sprint(cerr), "")
			}
			addSafety(c, "policy", text, nil, nil, nil, []biscuit.Policy{po})
			c.NT(fmt.Sprintf("policy/%v/%d", want.Allow, len(want.Queries)))
		default:
			withPol := r.Intn(2) == 0
			text, want := gen.GBlock(r, params, depth, withPol)
			var facts []biscuit.Fact
			var rules []biscuit.Rule
			var checks []biscuit.Check
			var pols []biscuit.Policy
			var err error
			what := "block"
			if withPol {
				what = "authorizer"
			}
			if pi := lib.Try(func() {
				if withPol {
					var pa biscuit.ParsedAuthorizer
					switch r.Intn(8) {
					default:
						pa, err = p.Authorizer(text, libParams(params))
					case 1:
						pa, err = parser.FromStringAuthorizerWithParams(text, libParams(params))
					case 2:
						if pa, err = p.Authorizer(text, libParams(params)); err == nil {
							pa = p.Must().Authorizer(text, libParams(params))
						}
					}
					facts, rules, checks, pols = pa.Block.Facts, pa.Block.Rules, pa.Block.Checks, pa.Policies
				} else {
					var pb biscuit.ParsedBlock
					switch r.Intn(8) {
					default:
						pb, err = p.Block(text, libParams(params))
					case 1:
						pb, err = parser.FromStringBlockWithParams(text, libParams(params))
					case 2:
						if pb, err = p.Block(text, libParams(params)); err == nil {
							pb = p.Must().Block(text, libParams(params))
						}
					}
					facts, rules, checks = pb.Facts, pb.Rules, pb.Checks
				}
			}); pi != nil {
				c.Violate("parse-panic/"+pi.Site+"/"+what, pi.Msg, map[string]any{"text": text})
				continue
			}
			if err != nil {
				c.Violate("parse-rejects-grammar-text/"+what, fmt.Sprintf("%s %q rejected: %v", what, core.Head(text, 300), err), map[string]any{"text": text, "params": fmt.Sprint(params)})
				continue
			}
			got := ast.AuthContent{}
			var cerr error
			for _, f := range facts {
				var x ast.Pred
				if x, cerr = ast.FromLibPred(f.Predicate); cerr == nil {
					got.Facts = append(got.Facts, x)
				}
			}
			for _, ru := range rules {
				var x ast.Rule
				if x, cerr = ast.FromLibRule(ru); cerr == nil {
					got.Rules = append(got.Rules, x)
				}
			}
			for _, ch := range checks {
				var x ast.Check
				if x, cerr = ast.FromLibCheck(ch); cerr == nil {
					got.Checks = append(got.Checks, x)
				}
			}
			for _, po := range pols {
				var x ast.Policy
				if x, cerr = ast.FromLibPolicy(po); cerr == nil {
					got.Policies = append(got.Policies, x)
				}
			}
			if got.Key() != want.Key() {
				c14Mismatch(c, what, text, params, want.Key(), got.Key(), "")
			}
			addSafety(c, what, text, facts, rules, checks, pols)
			c.NT(fmt.Sprintf("%s/%d%d%d%d", what, len(want.Facts), len(want.Rules), len(want.Checks), len(want.Policies)))
		}
	}
}

func parseFact(p parser.Parser, r *rand.Rand, text string, params parser.ParametersMap) (biscuit.Fact, error) {
	switch r.Intn(8) {
	case 1:
		if len(params) == 0 {
			return parser.FromStringFact(text)
		}
		return parser.FromStringFactWithParams(text, params)
	case 2:
		f, err := p.Fact(text, params)
		if err == nil {
			f = p.Must().Fact(text, params)
		}
		return f, err
	case 3:
		return parser.FromStringFactWithParams(text, params)
	}
	return p.Fact(text, params)
}

// c14Adjacency records which precedence levels were seen directly nested in which order.
func c14Adjacency(c *core.C, e ast.Expr) {
	t := gen.Tree(e)
	if t == nil {
		return
	}
	var walk func(n *gen.Node)
	walk = func(n *gen.Node) {
		for i, k := range n.Kids {
			c.Count(fmt.Sprintf("adjacent:%s>%s@%d", nodeClass(n), nodeClass(k), i), 1)
			walk(k)
		}
	}
	walk(t)
}

func nodeClass(n *gen.Node) string {
	switch {
	case n.Leaf != nil:
		return "term"
	case n.Un == ast.UParens:
		return "parens"
	case n.Un == ast.UNegate:
		return "not"
	case n.Un == ast.ULength:
		return "method"
	}
	switch n.Bin {
	case ast.BOr:
		return "or"
	case ast.BAnd:
		return "and"
	case ast.BLessThan, ast.BGreaterThan, ast.BLessOrEqual, ast.BGreaterOrEqual, ast.BEqual:
		return "cmp"
	case ast.BAdd, ast.BSub:
		return "add"
	case ast.BMul, ast.BDiv:
		return "mul"
	}
	return "method"
}

// fixed precedence / associativity catalogue ------------------------------------------------

type c14Fixed struct {
	text string
	want ast.Expr
}

func c14FixedCases() []c14Fixed {
	i := func(v int64) ast.Op { return ast.OV(ast.Int(v)) }
	b := func(v bool) ast.Op { return ast.OV(ast.Bool(v)) }
	x := ast.OV(ast.Var("x"))
	B, U := ast.OB, ast.OU
	P := U(ast.UParens)
	return []c14Fixed{
		{"1 - 2 - 3", ast.Expr{i(1), i(2), B(ast.BSub), i(3), B(ast.BSub)}},
		{"8 / 4 / 2", ast.Expr{i(8), i(4), B(ast.BDiv), i(2), B(ast.BDiv)}},
		{"1 - 2 + 3", ast.Expr{i(1), i(2), B(ast.BSub), i(3), B(ast.BAdd)}},
		{"8 / 4 * 2", ast.Expr{i(8), i(4), B(ast.BDiv), i(2), B(ast.BMul)}},
		{"1 + 2 * 3", ast.Expr{i(1), i(2), i(3), B(ast.BMul), B(ast.BAdd)}},
		{"1 * 2 + 3", ast.Expr{i(1), i(2), B(ast.BMul), i(3), B(ast.BAdd)}},
		{"1 + 2 * 3 + 4 / 5", ast.Expr{i(1), i(2), i(3), B(ast.BMul), B(ast.BAdd), i(4), i(5), B(ast.BDiv), B(ast.BAdd)}},
		{"(1 + 2) * 3", ast.Expr{i(1), i(2), B(ast.BAdd), P, i(3), B(ast.BMul)}},
		{"1 - (2 - 3)", ast.Expr{i(1), i(2), i(3), B(ast.BSub), P, B(ast.BSub)}},
		{"1 + 2 < 3 * 4", ast.Expr{i(1), i(2), B(ast.BAdd), i(3), i(4), B(ast.BMul), B(ast.BLessThan)}},
		{"1 < 2 && 3 > 4 || 5 == 6", ast.Expr{i(1), i(2), B(ast.BLessThan), i(3), i(4), B(ast.BGreaterThan), B(ast.BAnd), i(5), i(6), B(ast.BEqual), B(ast.BOr)}},
		{"true || false && true", ast.Expr{b(true), b(false), b(true), B(ast.BAnd), B(ast.BOr)}},
		{"true && false || true", ast.Expr{b(true), b(false), B(ast.BAnd), b(true), B(ast.BOr)}},
		{"true || false || true", ast.Expr{b(true), b(false), B(ast.BOr), b(true), B(ast.BOr)}},
		{"true && false && true", ast.Expr{b(true), b(false), B(ast.BAnd), b(true), B(ast.BAnd)}},
		{"!true && false", ast.Expr{b(true), U(ast.UNegate), b(false), B(ast.BAnd)}},
		{"!$x.contains(1)", ast.Expr{x, i(1), B(ast.BContains), U(ast.UNegate)}},
		{"!$x.length() == 2", ast.Expr{x, U(ast.ULength), U(ast.UNegate), i(2), B(ast.BEqual)}},
		{"$x.length() + 1 * 2", ast.Expr{x, U(ast.ULength), i(1), i(2), B(ast.BMul), B(ast.BAdd)}},
		{"$x.union([1]).intersection([2]).length()", ast.Expr{x, ast.OV(ast.SetOf(ast.Int(1))), B(ast.BUnion), ast.OV(ast.SetOf(ast.Int(2))), B(ast.BIntersection), U(ast.ULength)}},
		{"$x.contains(1 + 2 * 3)", ast.Expr{x, i(1), i(2), i(3), B(ast.BMul), B(ast.BAdd), B(ast.BContains)}},
		{"$x.starts_with(\"a\") && $x.ends_with(\"b\") || $x.matches(\"c\")", ast.Expr{x, ast.OV(ast.Str("a")), B(ast.BPrefix), x, ast.OV(ast.Str("b")), B(ast.BSuffix), B(ast.BAnd), x, ast.OV(ast.Str("c")), B(ast.BRegex), B(ast.BOr)}},
		{"((1))", ast.Expr{i(1), P, P}},
		{"(1 < 2) == true", ast.Expr{i(1), i(2), B(ast.BLessThan), P, b(true), B(ast.BEqual)}},
		{"1 <= 2", ast.Expr{i(1), i(2), B(ast.BLessOrEqual)}},
		{"1 >= 2", ast.Expr{i(1), i(2), B(ast.BGreaterOrEqual)}},
		{"2 * 3 / 4 * 5", ast.Expr{i(2), i(3), B(ast.BMul), i(4), B(ast.BDiv), i(5), B(ast.BMul)}},
		{"!(true || false)", ast.Expr{b(true), b(false), B(ast.BOr), P, U(ast.UNegate)}},
	}
}

func c14Fixedrun(c *core.C) {
	for _, fc := range c14FixedCases() {
		c.Eval(1)
		text := "r(1) <- p($x), " + fc.text
		var ru biscuit.Rule
		var err error
		if pi := lib.Try(func() { ru, err = parser.FromStringRule(text) }); pi != nil {
			c.Violate("parse-panic/"+pi.Site+"/fixed", pi.Msg, map[string]any{"text": text})
			continue
		}
		if err != nil {
			c.Violate("parse-rejects-grammar-text/fixed", fmt.Sprintf("%q rejected: %v", text, err), map[string]any{"text": text})
			continue
		}
		got, cerr := ast.FromLibRule(ru)
		if cerr != nil || len(got.Exprs) != 1 || got.Exprs[0].Key() != fc.want.Key() {
			c14Mismatch(c, "precedence", fc.text, nil, fc.want.Key(), fmt.Sprint(got.Exprs, cerr), "")
		}
		c.NT("fixed/" + fc.text)
	}
	c.Sample(map[string]any{"kind": "fixed precedence catalogue", "cases": len(c14FixedCases())})
}

// negative catalogue --------------------------------------------------------------------------

func c14Negative(c *core.C) {
	type neg struct {
		class string
		text  string
	}
	wrap := []struct{ pre, post, where string }{
		{"r(1) <- p(", ")", "predicate"},
		{"r(1) <- p($x), $x == ", "", "expression"},
		{"r(1) <- p($x), [1].contains(", ")", "method-argument"},
		{"check if p($x), ", " == $x", "check-expression"},
		{"allow if p(", ")", "policy-predicate"},
	}
	bads := []neg{
		{"unbound-parameter", "{nope}"},
		{"unbound-parameter-in-set", "[1, {nope}]"},
		{"malformed-date", "2020-13-45T00:00:00Z"},
		{"malformed-date", "2020-02-30T25:61:61Z"},
		{"malformed-date", "2021-02-29T00:00:00Z"},
		{"malformed-bytes", "hex:abc"},
		{"malformed-bytes", "hex:zz"},
		{"malformed-bytes", "hex:4"},
		{"variable-in-set", "[$y]"},
		{"variable-in-set", "[1, $y, 2]"},
	}
	for _, w := range wrap {
		for _, b := range bads {
			c14ExpectError(c, b.class+"/"+w.where, w.pre+b.text+w.post)
		}
	}
	for _, t := range []string{"1 < 2 < 3", "1 == 2 == 3", "$x <= 2 > 1", "1 < 2 == true", "$x >= 1 >= 0", "1 + 2 < 3 < 4 * 5"} {
		c14ExpectError(c, "chained-comparison/rule", "r(1) <- p($x), "+t)
		c14ExpectError(c, "chained-comparison/check", "check if p($x), "+t)
		c14ExpectError(c, "chained-comparison/policy", "deny if "+t)
	}
	// the same inside whole blocks and authorizers
	for _, b := range bads {
		c14ExpectErrorBlock(c, b.class+"/block", "p(1);\nr(1) <- p($x), $x == "+b.text+";\n")
		c14ExpectErrorBlock(c, b.class+"/block-fact", "p("+b.text+");\n")
	}
	c14VariableThroughParameter(c)
	c.Sample(map[string]any{"kind": "negative catalogue", "classes": []string{"unbound-parameter", "malformed-date", "malformed-bytes", "variable-in-set", "chained-comparison"}, "positions": []string{"predicate", "expression", "method-argument", "check", "policy", "block"}})
}

func c14ExpectError(c *core.C, class, text string) {
	c.Eval(1)
	var err error
	var rules []biscuit.Rule
	var checks []biscuit.Check
	var pols []biscuit.Policy
	pi := lib.Try(func() {
		switch {
		case strings.HasPrefix(text, "check if"):
			var ch biscuit.Check
			ch, err = parser.FromStringCheck(text)
			checks = append(checks, ch)
		case strings.HasPrefix(text, "allow if"), strings.HasPrefix(text, "deny if"):
			var p biscuit.Policy
			p, err = parser.FromStringPolicy(text)
			pols = append(pols, p)
		default:
			var r biscuit.Rule
			r, err = parser.FromStringRule(text)
			rules = append(rules, r)
		}
	})
	if pi != nil {
		c.Violate("parse-panic/"+pi.Site+"/negative", pi.Msg, map[string]any{"text": text, "class": class})
		return
	}
	c.NT("negative/" + class + "/" + text)
	if err == nil {
		c.Violate("no-error/"+class, fmt.Sprintf("%q was accepted; the grammar requires an error (%s)", text, class), map[string]any{"text": text, "class": class})
		// is the accepted value at least safe to add?
		addSafety(c, "wrongly-accepted "+class, text, nil, rules, checks, pols)
	}
}

// c14VariableThroughParameter: a parameter bound to a variable is a variable wherever it is
// substituted - inside a set (and in a fact) it is reported as an error like a variable written
// in the text.
func c14VariableThroughParameter(c *core.C) {
	p := parser.New()
	params := parser.ParametersMap{"v": biscuit.Variable("x"), "n": biscuit.Integer(1)}
	texts := map[string]func(string) error{
		"fact":   func(t string) error { _, err := p.Fact(t, params); return err },
		"rule":   func(t string) error { _, err := p.Rule(t, params); return err },
		"check":  func(t string) error { _, err := p.Check(t, params); return err },
		"policy": func(t string) error { _, err := p.Policy(t, params); return err },
		"block":  func(t string) error { _, err := p.Block(t, params); return err },
	}
	cases := [][2]string{
		{"fact", `right("a", [{v}])`}, {"fact", `right("a", [{n}, {v}])`}, {"fact", `right({v})`},
		{"rule", `r($x) <- p($x), q([{v}])`}, {"rule", `r($x) <- p($x), [{n}, {v}].contains($x)`},
		{"check", `check if p($x), [{v}].contains($x)`}, {"check", `check if p([{v}, {n}])`},
		{"policy", `allow if p($x), $x.intersection([{v}]).length() > 0`},
		{"block", `right("a", [{v}]);`},
	}
	for _, k := range cases {
		c.Eval(1)
		var err error
		if pi := lib.Try(func() { err = texts[k[0]](k[1]) }); pi != nil {
			c.Violate("parse-panic/"+pi.Site+"/negative", pi.Msg, map[string]any{"text": k[1]})
			continue
		}
		if err == nil {
			c.Violate("no-error/variable-through-parameter/"+k[0], fmt.Sprintf("%q with {v} bound to the variable $x was accepted; a variable inside a set / a fact is an error", k[1]), map[string]any{"text": k[1]})
		}
		c.NT("negative/variable-through-parameter/" + k[1])
	}
	// control: the same parameter is fine where a variable is allowed
	if _, err := p.Rule(`r({v}) <- p({v}), {v} == {n}`, params); err != nil {
		c.Violate("parse-rejects-grammar-text/rule", "a parameter bound to a variable was refused in a rule: "+err.Error(), nil)
	}
}

func c14ExpectErrorBlock(c *core.C, class, text string) {
	c.Eval(1)
	var err error
	var pb biscuit.ParsedBlock
	var pa biscuit.ParsedAuthorizer
	pi := lib.Try(func() {
		pb, err = parser.FromStringBlock(text)
		if err == nil {
			return
		}
		_, err2 := parser.FromStringAuthorizer(text)
		if err2 == nil {
			err = nil
		}
	})
	if pi != nil {
		c.Violate("parse-panic/"+pi.Site+"/negative", pi.Msg, map[string]any{"text": text, "class": class})
		return
	}
	c.NT("negative/" + class + "/" + text)
	if err == nil {
		c.Violate("no-error/"+class, fmt.Sprintf("%q was accepted; the grammar requires an error (%s)", text, class), map[string]any{"text": text, "class": class})
		addSafety(c, "wrongly-accepted "+class, text, pb.Facts, pb.Rules, pb.Checks, pa.Policies)
	}
}

// corruptions: only panics and add-safety ----------------------------------------------------

var c14Junk = []string{"(", ")", "[", "]", "{", "}", "{x}", "$", "$x", "\"", "\"\"", ",", ";", "<-", "<", "<=", "==", "!", "!!", ".", ".length()", ".contains(", "&&", "||", "|", "&", "/", "//", "*", "-", "+", "or", "check if", "allow if", "deny if", "hex:", "hex:4", "true", "0", "99999999999999999999999", "2020-13-45T00:00:00Z", "#a", "@", "\\", "\n", "\x00", "é", "prefix", "length", "matches", "contains", "in", "not"}

func c14Corrupt(c *core.C) {
	r := c.R
	p := parser.New()
	for i := 0; i < 40; i++ {
		params := gen.Params{}
		var toks []string
		kind := r.Intn(4)
		switch kind {
		case 0:
			toks, _ = gen.GRule(r, params, 1+r.Intn(4))
		case 1:
			toks, _ = gen.GCheck(r, params, 1+r.Intn(4))
		case 2:
			toks, _ = gen.GPolicy(r, params, 1+r.Intn(4))
		default:
			toks, _ = gen.GFact(r, params)
		}
		toks = append([]string{}, toks...)
		for k, n := 0, 1+r.Intn(3); k < n && len(toks) > 0; k++ {
			j := r.Intn(len(toks))
			switch r.Intn(8) {
			case 6, 7:
				// empty a pair of parentheses: "( args )" -> "( )", e.g. a method call or a
				// predicate that loses its arguments
				open := -1
				for d := 0; d < len(toks); d++ {
					if k := (j + d) % len(toks); toks[k] == "(" {
						open = k
						break
					}
				}
				if open >= 0 {
					for e := open + 1; e < len(toks); e++ {
						if toks[e] == ")" {
							toks = append(toks[:open+1], toks[e:]...)
							break
						}
					}
				}
			case 0:
				toks = append(toks[:j], toks[j+1:]...)
			case 1:
				toks = append(toks[:j+1], append([]string{toks[j]}, toks[j+1:]...)...)
			case 2:
				l := r.Intn(len(toks))
				toks[j], toks[l] = toks[l], toks[j]
			case 3:
				toks[j] = gen.Pick(r, c14Junk)
			case 4:
				toks = append(toks[:j+1], append([]string{gen.Pick(r, c14Junk)}, toks[j+1:]...)...)
			default:
				toks = toks[:j]
			}
		}
		text := gen.Layout(r, append([]string{}, nonEmpty(toks)...))
		if r.Intn(10) == 0 {
			b := make([]byte, r.Intn(40))
			r.Read(b)
			text = string(b)
		}
		if r.Intn(6) == 0 && len(params) > 0 {
			params = gen.Params{} // all parameters unbound
		}
		c.Eval(1)
		var facts []biscuit.Fact
		var rules []biscuit.Rule
		var checks []biscuit.Check
		var pols []biscuit.Policy
		lp := libParams(params)
		pi := lib.Try(func() {
			if f, err := p.Fact(text, lp); err == nil {
				facts = append(facts, f)
			}
			if x, err := p.Rule(text, lp); err == nil {
				rules = append(rules, x)
			}
			if x, err := p.Check(text, lp); err == nil {
				checks = append(checks, x)
			}
			if x, err := p.Policy(text, lp); err == nil {
				pols = append(pols, x)
			}
			if x, err := p.Block(text+";", lp); err == nil {
				facts, rules, checks = append(facts, x.Facts...), append(rules, x.Rules...), append(checks, x.Checks...)
			}
			if x, err := p.Authorizer(text+";", lp); err == nil {
				facts, rules, checks = append(facts, x.Block.Facts...), append(rules, x.Block.Rules...), append(checks, x.Block.Checks...)
				pols = append(pols, x.Policies...)
			}
		})
		if pi != nil {
			c.Violate("parse-panic/"+pi.Site+"/corrupted", fmt.Sprintf("parser panicked on %q: %s", core.Head(text, 200), pi.Msg), map[string]any{"text": text, "panic": pi})
			continue
		}
		if len(facts)+len(rules)+len(checks)+len(pols) > 0 {
			c.Count("corrupted_but_accepted", 1)
			addSafety(c, "corrupted-but-accepted", text, facts, rules, checks, pols)
		} else {
			c.Count("corrupted_rejected", 1)
		}
	}
	c.Sample(map[string]any{"kind": "token-level corruptions", "per_case": 40})
}

func nonEmpty(t []string) []string {
	out := []string{}
	for _, s := range t {
		if s != "" {
			out = append(out, s)
		}
	}
	if len(out) == 0 {
		return []string{"p"}
	}
	return out
}

func c14Run(c *core.C) {
	switch {
	case c.Idx == 0:
		c14Fixedrun(c)
	case c.Idx == 1:
		c14Negative(c)
	case c.Idx%3 == 2:
		c14Corrupt(c)
	default:
		c14Positive(c)
	}
}

var c14Levels = []string{"or", "and", "cmp", "add", "mul", "not", "method"}

func init() {
	core.Register(&core.Prop{
		ID:        "C14",
		MinCounts: map[string]int{"parses_after_a_failed_parse": 2000},
		Level:     "exploration",
		Rule: "case 0: 28 fixed precedence / associativity texts (left-nesting chains 1-2-3, 8/4/2, mixed levels, ! before method chains, method arguments that are full expressions, nested and required parentheses). case 1: negative catalogue - unbound parameter, malformed date, malformed byte literal, variable in a set, each inside a predicate, an expression, a method argument, a check, a policy and whole blocks; six chained comparisons in rules, checks and policies - each must return an error. 2/3 of the other cases: 12 grammar-generated texts each (facts, rules, checks, policies, blocks, authorizers) drawn as syntax TREES of depth <=6 over every operator, printed with exactly the parentheses the documented precedence requires plus random redundant ones and random layout (spaces, tabs, newlines, none), parameters bound to every term kind; the parse must equal the value computed from the tree, and is then added to a Builder, a BlockBuilder and an Authorizer. 1/3: 40 token-level corruptions each (delete / duplicate / swap / replace / insert junk / truncate, random bytes, unbound parameters) checked for panics and add-safety. " +
			"Non-trivial = distinct expected postfix shapes (operator sequence with operand kinds), negative texts, fixed texts. Explored lexical domain: names [a-z][a-zA-Z0-9_:]* not starting with prefix/suffix/matches/length/contains/true/false, non-negative integer literals, strings without quote and backslash, RFC 3339 dates with Z or numeric offset, hex: with an even number of digits, comments only before the first element.",
		Assumptions: []string{"GRAMMAR.md is the documented grammar; the name lexeme is not defined there, so names that start with a lexer keyword are outside the explored domain"},
		NumCases: func(tier string) int {
			if tier == "thorough" {
				return 60000
			}
			return 1200
		},
		Run: c14Run,
		Floor: func(a *core.Agg) []string {
			u := []string{}
			// every adjacent pair of precedence levels in both nesting orders
			for _, p := range c14Levels {
				for _, k := range c14Levels {
					if p == "not" && k == "not" {
						continue
					}
					if a.Cnt["adjacent:"+p+">parens@0"] == 0 && a.Cnt["adjacent:"+p+">"+k+"@0"] == 0 && a.Cnt["adjacent:"+p+">"+k+"@1"] == 0 {
						u = append(u, "nesting never seen: "+p+" over "+k)
					}
				}
			}
			if a.Cnt["corrupted_rejected"] < 1000 {
				u = append(u, "corrupted texts rejected < 1000")
			}
			if len(a.NT) < 3000 {
				u = append(u, fmt.Sprintf("distinct shapes %d < 3000", len(a.NT)))
			}
			return u
		},
	})
}
