package props

import (
	"crypto/ed25519"
	"fmt"
	"math/rand"
	"strings"
	"time"

	biscuit "github.com/biscuit-auth/biscuit-go/v2"
	"github.com/biscuit-auth/biscuit-go/v2/datalog"
	"github.com/biscuit-auth/biscuit-go/v2/parser"

	"verif/harness/ast"
	"verif/harness/core"
	"verif/harness/gen"
	"verif/harness/lib"
	"verif/harness/ref"
	"verif/harness/wire"
)

// C12 - authorization is deterministic and independent of presentation order.
// Oracle: relational monitor over (base, variant_1..k): outcome class and derived-fact sets
// (one all-variable probe query per predicate) must be equal.

func shuffled[T any](r *rand.Rand, xs []T) []T {
	out := append([]T{}, xs...)
	r.Shuffle(len(out), func(i, j int) { out[i], out[j] = out[j], out[i] })
	return out
}

func renameTerm(t ast.Term, m map[string]string) ast.Term {
	if t.K == ast.KVar {
		if n, ok := m[t.S]; ok {
			return ast.Var(n)
		}
	}
	return t
}

func renamePred(p ast.Pred, m map[string]string) ast.Pred {
	out := ast.Pred{Name: p.Name, Terms: make([]ast.Term, len(p.Terms))}
	for i, t := range p.Terms {
		out.Terms[i] = renameTerm(t, m)
	}
	return out
}

// renameRule renames variables consistently; new names include default symbols and string
// constants of the program (variables and strings share the symbol table).
func renameRule(r *rand.Rand, rule ast.Rule, pool []string) ast.Rule {
	vars := map[string]bool{}
	collect := func(p ast.Pred) {
		for _, t := range p.Terms {
			if t.K == ast.KVar {
				vars[t.S] = true
			}
		}
	}
	collect(rule.Head)
	for _, b := range rule.Body {
		collect(b)
	}
	for _, e := range rule.Exprs {
		for _, o := range e {
			if o.K == ast.OpValue && o.V.K == ast.KVar {
				vars[o.V.S] = true
			}
		}
	}
	m := map[string]string{}
	used := map[string]bool{}
	names := []string{}
	for v := range vars {
		names = append(names, v)
	}
	// deterministic order
	for i := 0; i < len(names); i++ {
		for j := i + 1; j < len(names); j++ {
			if names[j] < names[i] {
				names[i], names[j] = names[j], names[i]
			}
		}
	}
	for _, v := range names {
		for tries := 0; ; tries++ {
			n := gen.Pick(r, pool)
			if tries > 20 {
				n = fmt.Sprintf("%s_%d", n, tries)
			}
			if !used[n] {
				used[n] = true
				m[v] = n
				break
			}
		}
	}
	out := ast.Rule{Head: renamePred(rule.Head, m)}
	for _, b := range rule.Body {
		out.Body = append(out.Body, renamePred(b, m))
	}
	for _, e := range rule.Exprs {
		ne := ast.Expr{}
		for _, o := range e {
			if o.K == ast.OpValue {
				t := renameTerm(*o.V, m)
				ne = append(ne, ast.OV(t))
			} else {
				ne = append(ne, o)
			}
		}
		out.Exprs = append(out.Exprs, ne)
	}
	return out
}

func renameCheck(r *rand.Rand, c ast.Check, pool []string) ast.Check {
	out := ast.Check{}
	for _, q := range c.Queries {
		out.Queries = append(out.Queries, renameRule(r, q, pool))
	}
	return out
}

// variantBlock returns a presentation variant of a block (same sets of facts / rules / checks).
func variantBlock(r *rand.Rand, b ast.Block, kind int, pool []string) ast.Block {
	out := ast.Block{Context: b.Context, Facts: b.Facts, Rules: b.Rules, Checks: b.Checks}
	switch kind {
	case 0:
		out.Facts = shuffled(r, b.Facts)
	case 1:
		out.Rules = shuffled(r, b.Rules)
	case 2:
		out.Checks = shuffled(r, b.Checks)
	case 3:
		out.Checks = nil
		for _, c := range b.Checks {
			out.Checks = append(out.Checks, ast.Check{Queries: shuffled(r, c.Queries)})
		}
	case 4:
		out.Rules = nil
		for _, rl := range b.Rules {
			out.Rules = append(out.Rules, renameRule(r, rl, pool))
		}
		out.Checks = nil
		for _, c := range b.Checks {
			out.Checks = append(out.Checks, renameCheck(r, c, pool))
		}
	case 5:
		out.Facts = shuffled(r, b.Facts)
		out.Rules = shuffled(r, b.Rules)
		out.Checks = shuffled(r, b.Checks)
	}
	return out
}

func variantAuth(r *rand.Rand, a ast.AuthContent, kind int, pool []string) ast.AuthContent {
	b := variantBlock(r, ast.Block{Facts: a.Facts, Rules: a.Rules, Checks: a.Checks}, kind, pool)
	out := ast.AuthContent{Facts: b.Facts, Rules: b.Rules, Checks: b.Checks}
	// policies are an ORDERED list: only the queries inside a policy and variable names may change
	for _, p := range a.Policies {
		np := ast.Policy{Allow: p.Allow, Queries: p.Queries}
		if kind == 3 {
			// NOTE: permuting the queries of a policy keeps "has a satisfied query" unchanged
			np.Queries = shuffled(r, p.Queries)
		}
		if kind == 4 {
			np.Queries = nil
			for _, q := range p.Queries {
				np.Queries = append(np.Queries, renameRule(r, q, pool))
			}
		}
		out.Policies = append(out.Policies, np)
	}
	if kind == 6 {
		// duplicated facts
		out.Facts = append(append([]ast.Pred{}, a.Facts...), a.Facts...)
	}
	return out
}

// observeOrdered adds the content in a chosen order of kinds (facts/rules/checks/policies first).
func observeOrdered(b *biscuit.Biscuit, pub ed25519.PublicKey, a ast.AuthContent, probes []ast.Rule, order int, repeats int) (lib.Obs, []lib.Class) {
	var o lib.Obs
	var again []lib.Class
	pi := lib.Try(func() {
		az, err := b.AuthorizerFor(biscuit.WithSingularRootPublicKey(pub), lib.BigLimits())
		if err != nil {
			o = lib.Obs{Class: lib.FAIL, Err: err.Error()}
			return
		}
		addF := func() {
			for _, f := range a.Facts {
				az.AddFact(f.LibFact())
			}
		}
		addR := func() {
			for _, r := range a.Rules {
				az.AddRule(r.Lib())
			}
		}
		addC := func() {
			for _, c := range a.Checks {
				az.AddCheck(c.Lib())
			}
		}
		addP := func() {
			for _, p := range a.Policies {
				az.AddPolicy(p.Lib())
			}
		}
		steps := [][]func(){{addF, addR, addC, addP}, {addP, addC, addR, addF}, {addC, addF, addP, addR}, {addR, addP, addF, addC}}[order%4]
		for _, s := range steps {
			s()
		}
		o = lib.ObserveOn(az, ast.AuthContent{}, probes)
		for i := 0; i < repeats; i++ {
			again = append(again, lib.Classify(az.Authorize()))
		}
	})
	if pi != nil {
		o = lib.Obs{Class: lib.PANIC, Panic: pi}
	}
	return o, again
}

// c12AddRuleChain adds a dependency chain of 2-5 rules (link_{i+1}($x) <- link_i($x)) in a
// random order, with unrelated rules in between, to the authority block or the authorizer, a
// check or policy that needs the end of the chain, and a probe for every link: an evaluator
// whose result depends on the order in which rules are supplied shows it here.
func c12AddRuleChain(r *rand.Rand, s *gen.Scenario) {
	n := 2 + r.Intn(4)
	x := ast.Var("x")
	rules := []ast.Rule{{Head: ast.P("link_0", x), Body: []ast.Pred{ast.P("seed_fact", x)}}}
	for i := 0; i < n; i++ {
		rules = append(rules, ast.Rule{Head: ast.P(fmt.Sprintf("link_%d", i+1), x), Body: []ast.Pred{ast.P(fmt.Sprintf("link_%d", i), x)}})
	}
	rules = append(rules, ast.Rule{Head: ast.P("unrelated_z", x), Body: []ast.Pred{ast.P("unrelated_y", x)}})
	r.Shuffle(len(rules), func(i, j int) { rules[i], rules[j] = rules[j], rules[i] })
	seed := ast.P("seed_fact", ast.Int(int64(r.Intn(3))))
	last := ast.P(fmt.Sprintf("link_%d", n), ast.Var("v0"))
	if r.Intn(2) == 0 {
		s.Blocks[0].Facts = append(s.Blocks[0].Facts, seed)
		s.Blocks[0].Rules = append(s.Blocks[0].Rules, rules...)
	} else {
		s.Auth.Facts = append(s.Auth.Facts, seed)
		s.Auth.Rules = append(s.Auth.Rules, rules...)
	}
	if r.Intn(2) == 0 {
		s.Auth.Checks = append(s.Auth.Checks, ast.Check{Queries: []ast.Rule{{Head: ast.P("query"), Body: []ast.Pred{last}}}})
	}
	for i := 0; i <= n; i++ {
		p := ast.P(fmt.Sprintf("link_%d", i), ast.Var("v0"))
		s.Probes = append(s.Probes, ast.Rule{Head: ast.P(fmt.Sprintf("probe_link_%d", i), ast.Var("v0")), Body: []ast.Pred{p}})
	}
}

// c12AddRegexAndJoin adds (1) two facts, two rules and two checks that use two DIFFERENT regular
// expressions - permuting rules or checks changes the order in which the patterns are interned,
// so the same symbol index means another pattern in the variant evaluated next in this process;
// (2) a chain of 3-5 parent/2 facts with the self-join grandparent($g,$c) <- parent($g,$p),
// parent($p,$c) and a three-atom join - permuting the facts changes which fact sits at which
// position of the join enumerator. Probes expose everything derived.
func c12AddRegexAndJoin(r *rand.Rand, s *gen.Scenario) {
	pats := []string{"^a", "^z", "a$", "^[a-m]", "e", "^.l"}
	i := r.Intn(len(pats))
	j := (i + 1 + r.Intn(len(pats)-1)) % len(pats)
	u, h := ast.Var("u"), ast.Var("h")
	m := func(v ast.Term, pat string) ast.Expr {
		return ast.Expr{ast.OV(v), ast.OV(ast.Str(pat)), ast.OB(int(ast.BRegex))}
	}
	facts := []ast.Pred{ast.P("re_user", ast.Str("alice")), ast.P("re_user", ast.Str("zed")), ast.P("re_host", ast.Str("zeta")), ast.P("re_host", ast.Str("alpha"))}
	rules := []ast.Rule{
		{Head: ast.P("re_hit_user", u), Body: []ast.Pred{ast.P("re_user", u)}, Exprs: []ast.Expr{m(u, pats[i])}},
		{Head: ast.P("re_hit_host", h), Body: []ast.Pred{ast.P("re_host", h)}, Exprs: []ast.Expr{m(h, pats[j])}},
	}
	checks := []ast.Check{
		{Queries: []ast.Rule{{Head: ast.P("query"), Body: []ast.Pred{ast.P("re_user", u)}, Exprs: []ast.Expr{m(u, pats[i])}}}},
		{Queries: []ast.Rule{{Head: ast.P("query"), Body: []ast.Pred{ast.P("re_host", h)}, Exprs: []ast.Expr{m(h, pats[j])}}}},
	}
	names := []string{"ann", "bob", "cy", "dee", "eve", "flo"}
	n := 3 + r.Intn(3)
	for k := 0; k < n; k++ {
		facts = append(facts, ast.P("parent", ast.Str(names[k]), ast.Str(names[k+1])))
	}
	// a three-way join over three different predicates (the middle atom shares a variable with
	// each neighbour): which fact is supplied last decides where the enumerator carries
	rr, uu := ast.Var("r"), ast.Var("uu")
	facts = append(facts, ast.P("j_resource", ast.Str("file1")), ast.P("j_resource", ast.Str("file2")), ast.P("j_owner", ast.Str("bob"), ast.Str("file1")),
		ast.P("j_owner", ast.Str("ann"), ast.Str("file2")), ast.P("j_user", ast.Str("bob")), ast.P("j_user", ast.Str("ann")))
	rules = append(rules, ast.Rule{Head: ast.P("j_can", uu, rr), Body: []ast.Pred{ast.P("j_resource", rr), ast.P("j_owner", uu, rr), ast.P("j_user", uu)}})
	g, p, ch, x := ast.Var("g"), ast.Var("p"), ast.Var("c"), ast.Var("x")
	rules = append(rules,
		ast.Rule{Head: ast.P("grandparent", g, ch), Body: []ast.Pred{ast.P("parent", g, p), ast.P("parent", p, ch)}},
		ast.Rule{Head: ast.P("great", g, x), Body: []ast.Pred{ast.P("parent", g, p), ast.P("parent", p, ch), ast.P("parent", ch, x)}})
	if r.Intn(2) == 0 {
		s.Blocks[0].Facts = append(s.Blocks[0].Facts, facts...)
		s.Blocks[0].Rules = append(s.Blocks[0].Rules, rules...)
	} else {
		s.Auth.Facts = append(s.Auth.Facts, facts...)
		s.Auth.Rules = append(s.Auth.Rules, rules...)
	}
	s.Auth.Checks = append(s.Auth.Checks, checks...)
	// the same set stated twice with its members in another order (one fact: the world keeps whichever
	// spelling arrives first) and asked for by a set constant in a third order
	mkset := func(xs ...int64) ast.Term {
		t := ast.Term{K: ast.KSet}
		for _, x := range xs {
			t.Set = append(t.Set, ast.Int(x))
		}
		return t
	}
	s.Auth.Facts = append(s.Auth.Facts, ast.P("grp", mkset(1, 2, 3)), ast.P("grp", mkset(3, 1, 2)), ast.P("grp", mkset(4, 5)))
	s.Auth.Rules = append(s.Auth.Rules, ast.Rule{Head: ast.P("member_ok", uu), Body: []ast.Pred{ast.P("grp", mkset(2, 3, 1)), ast.P("j_user", uu)}})
	s.Auth.Checks = append(s.Auth.Checks, ast.Check{Queries: []ast.Rule{{Head: ast.P("query"), Body: []ast.Pred{ast.P("grp", mkset(1, 2, 3))}}}})
	// a check (and a policy) whose alternatives are one that cannot be evaluated (division by zero on a
	// matching fact) and one that holds: their order is presentation
	bad := ast.Rule{Head: ast.P("query"), Body: []ast.Pred{ast.P("j_user", uu), ast.P("zero", x)}, Exprs: []ast.Expr{{ast.OV(ast.Int(1)), ast.OV(x), ast.OB(int(ast.BDiv)), ast.OV(ast.Int(0)), ast.OB(int(ast.BGreaterOrEqual))}}}
	good := ast.Rule{Head: ast.P("query"), Body: []ast.Pred{ast.P("j_user", ast.Str("bob"))}}
	s.Auth.Facts = append(s.Auth.Facts, ast.P("zero", ast.Int(0)))
	if r.Intn(2) == 0 {
		s.Auth.Checks = append(s.Auth.Checks, ast.Check{Queries: []ast.Rule{bad, good}})
	} else {
		s.Auth.Checks = append(s.Auth.Checks, ast.Check{Queries: []ast.Rule{good, bad}})
	}
	s.Auth.Policies = append([]ast.Policy{{Allow: r.Intn(2) == 0, Queries: []ast.Rule{good, bad}}}, s.Auth.Policies...)
	v0, v1 := ast.Var("v0"), ast.Var("v1")
	s.Probes = append(s.Probes,
		ast.Rule{Head: ast.P("probe_re_user", v0), Body: []ast.Pred{ast.P("re_hit_user", v0)}},
		ast.Rule{Head: ast.P("probe_re_host", v0), Body: []ast.Pred{ast.P("re_hit_host", v0)}},
		ast.Rule{Head: ast.P("probe_grandparent", v0, v1), Body: []ast.Pred{ast.P("grandparent", v0, v1)}},
		ast.Rule{Head: ast.P("probe_great", v0, v1), Body: []ast.Pred{ast.P("great", v0, v1)}},
		ast.Rule{Head: ast.P("probe_j_can", v0, v1), Body: []ast.Pred{ast.P("j_can", v0, v1)}},
		ast.Rule{Head: ast.P("probe_member_ok", v0), Body: []ast.Pred{ast.P("member_ok", v0)}},
		ast.Rule{Head: ast.P("probe_j_direct", v0, v1), Body: []ast.Pred{ast.P("j_resource", v1), ast.P("j_owner", v0, v1), ast.P("j_user", v0)}})
}

// c12JoinOnly: nothing but stated facts (no rule, so nothing derived is appended behind them), one
// check and one query that join three different predicates. The same six facts are supplied in
// six different orders, through the authority block or through the authorizer: same outcome,
// same answers. (With rules in play a combination missed in one pass is found in the next.)
func c12JoinOnly(c *core.C) {
	r := c.R
	rr, uu := ast.Var("r"), ast.Var("u")
	facts := []ast.Pred{ast.P("j_resource", ast.Str("file1")), ast.P("j_resource", ast.Str("file2")), ast.P("j_owner", ast.Str("bob"), ast.Str("file1")),
		ast.P("j_owner", ast.Str("ann"), ast.Str("file2")), ast.P("j_user", ast.Str("bob")), ast.P("j_user", ast.Str("ann"))}
	join := []ast.Pred{ast.P("j_resource", rr), ast.P("j_owner", uu, rr), ast.P("j_user", uu)}
	wantUser := gen.Pick(r, []string{"bob", "ann"})
	check := ast.Check{Queries: []ast.Rule{{Head: ast.P("query"), Body: []ast.Pred{ast.P("j_resource", rr), ast.P("j_owner", ast.Str(wantUser), rr), ast.P("j_user", ast.Str(wantUser))}}}}
	probes := []ast.Rule{{Head: ast.P("probe_join", uu, rr), Body: join}}
	inAuthority := r.Intn(2) == 0
	var first lib.Obs
	var firstOrder []string
	for k := 0; k < 6; k++ {
		order := shuffled(r, facts)
		blocks := []ast.Block{{Facts: []ast.Pred{ast.P("filler", ast.Int(int64(c.Idx)))}}}
		a := ast.AuthContent{Checks: []ast.Check{check}, Policies: []ast.Policy{allowAll}}
		if inAuthority {
			blocks[0].Facts = order
		} else {
			a.Facts = order
		}
		tok, err := buildScenarioToken(c.Seed, fmt.Sprintf("c12j-%d-%d", c.Idx, k), blocks)
		if err != nil {
			c.Violate("build-refused", err.Error(), nil)
			return
		}
		o := lib.Observe(tok.B, tok.Pub, a, probes)
		c.Eval(1)
		keys := ast.FactSetKeys(order)
		if k == 0 {
			first, firstOrder = o, keys
			if o.Class != lib.OK {
				c.Violate("join-only-control", fmt.Sprintf("control order refused: %s %s", o.Class, o.Err), map[string]any{"order": keys})
				return
			}
			continue
		}
		if o.Class != first.Class || core.JSON(o.Queries) != core.JSON(first.Queries) {
			c.Violate("presentation-changes-outcome/fact-order-three-way-join", fmt.Sprintf("order %v: %s %v; order %v: %s %v", firstOrder, first.Class, first.Queries, keys, o.Class, o.Queries),
				map[string]any{"in_authority": inAuthority, "first_order": firstOrder, "order": keys, "first": first, "observed": o})
		}
		c.NT("join-only/" + strings.Join(keys, ","))
	}
	c.Count("join_only_groups", 1)
}

// c12IterationLimit: a chain of 4 rules in the authorizer, supplied in dependency order, in reverse
// order and shuffled, under every iteration limit from 1 to 8: the number of passes a chain of
// depth d needs does not depend on the order in which its rules are written, so the outcome
// (authorized / iteration limit) is the same for every order at every limit.
func c12IterationLimit(c *core.C) {
	r := c.R
	x := ast.Var("x")
	rules := []ast.Rule{{Head: ast.P("lim_1", x), Body: []ast.Pred{ast.P("lim_0", x)}}}
	for i := 1; i < 4; i++ {
		rules = append(rules, ast.Rule{Head: ast.P(fmt.Sprintf("lim_%d", i+1), x), Body: []ast.Pred{ast.P(fmt.Sprintf("lim_%d", i), x)}})
	}
	rev := []ast.Rule{}
	for i := len(rules) - 1; i >= 0; i-- {
		rev = append(rev, rules[i])
	}
	orders := map[string][]ast.Rule{"dependency order": rules, "reverse order": rev, "shuffled": shuffled(r, rules)}
	tok, err := buildScenarioToken(c.Seed, fmt.Sprintf("c12lim-%d", c.Idx), []ast.Block{{Facts: []ast.Pred{ast.P("filler", ast.Int(1))}}})
	if err != nil {
		return
	}
	for lim := 1; lim <= 8; lim++ {
		res := map[string]lib.Class{}
		for _, name := range []string{"dependency order", "reverse order", "shuffled"} {
			var cl lib.Class
			if pi := lib.Try(func() {
				az, err := tok.B.AuthorizerFor(biscuit.WithSingularRootPublicKey(tok.Pub), biscuit.WithWorldOptions(datalog.WithMaxIterations(lim), datalog.WithMaxFacts(100000), datalog.WithMaxDuration(60*time.Second)))
				if err != nil {
					cl = lib.FAIL
					return
				}
				az.AddFact(ast.P("lim_0", ast.Int(1)).LibFact())
				for _, rl := range orders[name] {
					az.AddRule(rl.Lib())
				}
				az.AddPolicy(allowAll.Lib())
				cl = lib.Classify(az.Authorize())
			}); pi != nil {
				cl = lib.PANIC
			}
			res[name] = cl
			c.Eval(1)
		}
		if res["reverse order"] != res["dependency order"] || res["shuffled"] != res["dependency order"] {
			c.Violate("presentation-changes-outcome/rule-order-under-iteration-limit", fmt.Sprintf("WithMaxIterations(%d), chain of 4 rules: %v", lim, res), map[string]any{"limit": lim, "outcomes": res})
		}
		c.NT(fmt.Sprintf("iteration-limit/%d/%s", lim, res["dependency order"]))
	}
	c.Count("iteration_limit_groups", 1)
}

func c12Run(c *core.C) {
	r := c.R
	c12JoinOnly(c)
	if c.Idx%4 == 0 {
		c12IterationLimit(c)
	}
	for rep := 0; rep < 3; rep++ {
		s := gen.NewScenario(r, 3, scenOpts)
		countBig(c, s)
		c12AddRuleChain(r, s)
		if rep != 1 {
			c12AddRegexAndJoin(r, s)
		}
		d := ref.Authorize(s.Blocks, s.Auth)
		if d.Class == "" || d.Signature == "run-error" || d.Signature == "block-run-error" {
			c.Count("skipped_not_error_free", 1)
			continue
		}
		base, err := buildScenarioToken(c.Seed, fmt.Sprintf("c12-%d-%d", c.Idx, rep), s.Blocks)
		if err != nil {
			c.Violate("build-refused", err.Error(), gen.Texts(s.Blocks))
			continue
		}
		bo, again := observeOrdered(base.B, base.Pub, s.Auth, s.Probes, 0, 2)
		c.Eval(1)
		if bo.Class == lib.PANIC || bo.Class == lib.LIMIT {
			c.Inconc("base outcome " + string(bo.Class))
			continue
		}
		baseDesc := map[string]any{"token": gen.Texts(base.Blocks), "authorizer": gen.AuthTexts(s.Auth), "base": bo}
		for i, cl := range again {
			if cl != bo.Class {
				c.Violate("second-authorize-differs", fmt.Sprintf("Authorize call %d on the same authorizer returned %s, the first returned %s", i+2, cl, bo.Class), baseDesc)
			}
		}
		permutable := len(s.Auth.Facts) + len(s.Auth.Rules) + len(s.Auth.Checks)
		for _, b := range s.Blocks {
			permutable += len(b.Facts) + len(b.Rules) + len(b.Checks)
		}
		nontrivial := len(d.Closure) >= 2 && permutable >= 2
		pool := append([]string{"read", "resource", "query", "x", "y", "v", "Z9", "a:b"}, s.U.Str...)
		pool = filterIdent(pool)
		for kind := 0; kind <= 7; kind++ {
			var tok *lib.Token
			auth := s.Auth
			tag := []string{"permute-facts", "permute-rules", "permute-checks", "permute-queries", "rename-variables", "permute-all", "duplicate-facts", "wire-duplicate-facts"}[kind]
			switch {
			case kind <= 5:
				blocks := []ast.Block{}
				for _, b := range s.Blocks {
					blocks = append(blocks, variantBlock(r, b, kind, pool))
				}
				tok, err = buildScenarioToken(c.Seed, fmt.Sprintf("c12-%d-%d-%d", c.Idx, rep, kind), blocks)
				auth = variantAuth(r, s.Auth, kind, pool)
			case kind == 6:
				tok = base
				auth = variantAuth(r, s.Auth, 6, pool)
			default:
				// duplicated facts on the wire (the builder refuses duplicates; a foreign writer need not)
				dup := []ast.Block{}
				for _, b := range s.Blocks {
					nb := b
					nb.Facts = append(append([]ast.Pred{}, b.Facts...), b.Facts...)
					dup = append(dup, nb)
				}
				raw := freshChain(c.Seed, fmt.Sprintf("c12w-%d-%d", c.Idx, rep), base.Priv, dup, nil, false)
				var lb *biscuit.Biscuit
				lb, err = biscuit.Unmarshal(raw)
				if err == nil {
					tok = &lib.Token{B: lb, Blocks: dup, Pub: base.Pub, Priv: base.Priv}
				}
			}
			if err != nil || tok == nil {
				c.Count("variant_not_buildable:"+tag, 1)
				continue
			}
			vo, _ := observeOrdered(tok.B, tok.Pub, auth, s.Probes, r.Intn(4), 0)
			c.Eval(1)
			desc := map[string]any{"variant": tag, "token": gen.Texts(base.Blocks), "authorizer": gen.AuthTexts(s.Auth), "variant_token": gen.Texts(tok.Blocks), "variant_authorizer": gen.AuthTexts(auth), "base": bo, "observed": vo}
			if vo.Class == lib.PANIC {
				c.Violate("authorize-panic", vo.Panic.Msg, desc)
				continue
			}
			if vo.Class == lib.LIMIT {
				c.Inconc("limit sentinel under large limits")
				continue
			}
			if vo.Class != bo.Class {
				c.Violate("presentation-changes-outcome/"+tag, fmt.Sprintf("%s: outcome %s, base %s", tag, vo.Class, bo.Class), desc)
			} else if core.JSON(vo.Queries) != core.JSON(bo.Queries) {
				c.Violate("presentation-changes-derived-facts/"+tag, tag+": derived facts differ from the base presentation", desc)
			}
			c.Count("variants:"+tag, 1)
			if nontrivial {
				c.NT(tag + "/" + core.JSON(baseDesc))
				c.Count("nontrivial_variants", 1)
			}
		}
		if rep == 0 {
			c.Sample(map[string]any{"kind": "presentation group", "token": gen.Texts(base.Blocks), "authorizer": gen.AuthTexts(s.Auth), "class": bo.Class, "variants": 8, "repeated_authorize": 2})
		}
	}
}

func filterIdent(xs []string) []string {
	out := []string{}
	for _, x := range xs {
		ok := x != ""
		for _, ch := range x {
			if !(ch >= 'a' && ch <= 'z' || ch >= 'A' && ch <= 'Z' || ch >= '0' && ch <= '9' || ch == '_' || ch == ':') {
				ok = false
			}
		}
		if ok {
			out = append(out, x)
		}
	}
	return out
}

// ---- C13 ---------------------------------------------------------------------------------

func mergeAuth(a, b ast.AuthContent) ast.AuthContent {
	return ast.AuthContent{
		Facts:    append(append([]ast.Pred{}, a.Facts...), b.Facts...),
		Rules:    append(append([]ast.Rule{}, a.Rules...), b.Rules...),
		Checks:   append(append([]ast.Check{}, a.Checks...), b.Checks...),
		Policies: append(append([]ast.Policy{}, a.Policies...), b.Policies...),
	}
}

func c13Run(c *core.C) {
	r := c.R
	for rep := 0; rep < 3; rep++ {
		s := gen.NewScenario(r, 3, scenOpts)
		countBig(c, s)
		tok, err := buildScenarioToken(c.Seed, fmt.Sprintf("c13-%d-%d", c.Idx, rep), s.Blocks)
		if err != nil {
			c.Violate("build-refused", err.Error(), gen.Texts(s.Blocks))
			continue
		}
		// one history in four runs with a small fact limit, so that some rounds are ABORTED by a
		// limit error (the limit is a fact count, not a clock: it is deterministic)
		limits := lib.BigLimits()
		limitTag := "large limits"
		if r.Intn(4) == 0 {
			mf := 3 + r.Intn(8)
			limits = biscuit.WithWorldOptions(datalog.WithMaxFacts(mf), datalog.WithMaxIterations(100000), datalog.WithMaxDuration(60*time.Second))
			limitTag = fmt.Sprintf("maxFacts=%d", mf)
		}
		newAuthorizer := func() (biscuit.Authorizer, error) {
			return tok.B.AuthorizerFor(biscuit.WithSingularRootPublicKey(tok.Pub), limits)
		}
		var reused biscuit.Authorizer
		pi := lib.Try(func() {
			reused, err = newAuthorizer()
		})
		if pi != nil || err != nil {
			c.Violate("authorizer-refused", fmt.Sprint(pi, err), nil)
			continue
		}
		rounds := 2 + r.Intn(5)
		history := []any{}
		var prev ast.AuthContent
		for n := 0; n < rounds; n++ {
			// content of round n: the scenario's authorizer content for round 0, then perturbed /
			// fresh content over the same universe (so that leftovers would matter)
			content := s.Auth
			if n > 0 {
				if r.Intn(2) == 0 {
					_, content = c04Perturb(r, s.U, prev)
				} else {
					content = s.U.Auth(r, scenOpts, 2)
					known := append(append([]ast.Pred{}, prev.Facts...), tok.Blocks[0].Facts...)
					for j := range content.Checks {
						content.Checks[j] = s.U.CheckFrom(r, scenOpts.Rule, known)
					}
					for j := range content.Policies {
						content.Policies[j] = s.U.PolicyFrom(r, scenOpts.Rule, known)
					}
				}
				if r.Intn(3) == 0 {
					content.Facts = nil // a request that states less than the previous one
				}
			}
			if r.Intn(4) == 0 {
				// a check whose expression fails half-way, with an operand still waiting on the
				// evaluation stack (1 < 1000 / 0;  40, !2): this round is refused, and whatever the
				// failed evaluation leaves behind must not reach the rounds that follow
				bad := []ast.Expr{
					{ast.OV(ast.Int(1)), ast.OV(ast.Int(1000)), ast.OV(ast.Int(0)), ast.OB(int(ast.BDiv)), ast.OB(int(ast.BLessThan))},
					{ast.OV(ast.Int(40)), ast.OV(ast.Int(2)), ast.OU(int(ast.UNegate)), ast.OB(int(ast.BAdd)), ast.OV(ast.Int(0)), ast.OB(int(ast.BGreaterThan))},
				}[r.Intn(2)]
				content.Checks = append(append([]ast.Check{}, content.Checks...), ast.Check{Queries: []ast.Rule{{Head: ast.P("query"), Exprs: []ast.Expr{bad}}}})
				c.Count("rounds_with_half_way_failing_expression", 1)
			}
			mode := r.Intn(4) // 0 authorize, 1 query then authorize, 2 query only, 3 nothing (add, then Reset)
			// how the content reaches the authorizer
			entry := r.Intn(4) // 0,1 Add*; 2 AddAuthorizer(parsed text) when printable; 3 LoadPolicies(snapshot)
			var snapshot []byte
			if entry == 3 {
				lib.Try(func() {
					tmp, err := newAuthorizer()
					if err == nil {
						lib.AddContent(tmp, content)
						snapshot, _ = tmp.SerializePolicies()
					}
				})
				if snapshot == nil {
					entry = 0
				}
			}
			if entry == 2 && !gen.AuthPrintable(content) {
				entry = 0
			}
			entryName := []string{"Add*", "Add*", "AddAuthorizer(parsed text)", "LoadPolicies(snapshot)"}[entry]
			run := func(a biscuit.Authorizer) lib.Obs {
				var o lib.Obs
				pi := lib.Try(func() {
					switch entry {
					case 2:
						pa, err := parser.FromStringAuthorizer(gen.AuthText(content))
						if err != nil {
							lib.AddContent(a, content)
						} else {
							a.AddAuthorizer(pa)
						}
					case 3:
						if err := a.LoadPolicies(snapshot); err != nil {
							o.Err = "load: " + err.Error()
						}
					default:
						lib.AddContent(a, content)
					}
					if mode == 3 {
						o.Class = "NOTHING"
						return
					}
					if mode >= 1 {
						for _, q := range s.Probes {
							ks, err := lib.QueryKeys(a, q)
							if err != nil {
								ks = []string{"ERR"}
							}
							o.Queries = append(o.Queries, ks)
						}
					}
					if mode <= 1 {
						o2 := lib.ObserveOn(a, ast.AuthContent{}, s.Probes)
						o.Class, o.Err = o2.Class, o2.Err
						o.Queries = append(o.Queries, o2.Queries...)
					} else {
						o.Class = "QUERY-ONLY"
					}
				})
				if pi != nil {
					o = lib.Obs{Class: lib.PANIC, Panic: pi}
				}
				return o
			}
			got := run(reused)
			var fresh biscuit.Authorizer
			fresh, err = newAuthorizer()
			if err != nil {
				break
			}
			want := run(fresh)
			c.Eval(2)
			history = append(history, map[string]any{"round": n, "content": gen.AuthTexts(content), "entry": entryName, "mode": []string{"authorize", "query+authorize", "query-only", "nothing"}[mode], "limits": limitTag, "reused": got.Class, "fresh": want.Class})
			desc := map[string]any{"token": gen.Texts(tok.Blocks), "rounds": history, "reused": got, "fresh": want}
			c.Count("rounds_entry:"+entryName, 1)
			c.Count("rounds_outcome:"+string(want.Class), 1)
			if got.Class == lib.PANIC || want.Class == lib.PANIC {
				c.Violate("authorize-panic", fmt.Sprint(got.Panic, want.Panic), desc)
				break
			}
			if strings.Contains(got.Err+want.Err, "timeout") || (limitTag == "large limits" && (got.Class == lib.LIMIT || want.Class == lib.LIMIT)) {
				c.Inconc("limit sentinel under large limits / timeout")
				break
			}
			if got.Class != want.Class {
				c.Violate("reset-leaks/outcome", fmt.Sprintf("round %d: reused authorizer says %s, a fresh one says %s", n, got.Class, want.Class), desc)
			} else if core.JSON(got.Queries) != core.JSON(want.Queries) {
				c.Violate("reset-leaks/query-results", fmt.Sprintf("round %d: query results of the reused authorizer differ from a fresh one", n), desc)
			} else if got.Err != want.Err {
				// what the caller is told (which checks failed, printed with which strings) is part
				// of the outcome: after a Reset it must not be worded with an earlier request's strings
				c.Violate("reset-leaks/error-text", fmt.Sprintf("round %d: the reused authorizer reports %q, a fresh one %q", n, got.Err, want.Err), desc)
			}
			// a leak that sits outside the authorizer (process-wide state written by an earlier
			// round) reaches the fresh authorizer as well: the outcome is also held against the
			// reference decision procedure for this round's content alone
			if mode <= 1 && limitTag == "large limits" {
				if dn := ref.Authorize(tok.Blocks, content); dn.Class != "" && string(got.Class) != dn.Class && got.Class == want.Class {
					c.Violate("reset-leaks/outcome-differs-from-decision-procedure", fmt.Sprintf("round %d: reused and fresh authorizer both say %s, the decision procedure on this round's content alone says %s (%s)", n, got.Class, dn.Class, dn.Signature), desc)
				}
			}
			// leak sensitivity, measured with the reference authorizer
			if n > 0 {
				dn := ref.Authorize(tok.Blocks, content)
				dl := ref.Authorize(tok.Blocks, mergeAuth(prev, content))
				if dn.Class != "" && dl.Class != "" && (dn.Class != dl.Class || core.JSON(probeAnswers(dn, s.Probes)) != core.JSON(probeAnswers(dl, s.Probes))) {
					c.Count("leak_sensitive_rounds", 1)
					c.NT(core.JSON(desc))
				}
			}
			pi := lib.Try(func() { reused.Reset() })
			if pi != nil {
				c.Violate("reset-panic/"+pi.Site, pi.Msg, desc)
				break
			}
			prev = content
		}
		if rep == 0 {
			c.Sample(map[string]any{"kind": "reset history", "token": gen.Texts(tok.Blocks), "rounds": history})
		}
	}
}

// ---- C18 ---------------------------------------------------------------------------------

// c18RefusalAfterFailure: an evaluation that ENDS IN AN ERROR is an evaluation too - the token's
// facts and rules have been loaded into the authorizer by then. Authorize (or Query) fails while
// the authority block, a later block or the authorizer's own rules are applied (division by
// zero, fact limit); saving must be refused afterwards, as after a successful evaluation.
func c18RefusalAfterFailure(c *core.C) {
	r := c.R
	x := ast.Var("x")
	boom := ast.Rule{Head: ast.P("share", x), Body: []ast.Pred{ast.P("quota", x)}, Exprs: []ast.Expr{{ast.OV(x), ast.OV(ast.Int(0)), ast.OB(int(ast.BDiv)), ast.OV(ast.Int(1)), ast.OB(int(ast.BEqual))}}}
	where := []string{"authority block", "later block", "authorizer rule (Authorize)", "authorizer rule (Query)", "fact limit in the authority block"}[c.Idx%5]
	blocks := []ast.Block{{Facts: []ast.Pred{ast.P("secret", ast.Str(fmt.Sprintf("s3cr3t-%d", c.Idx))), ast.P("quota", ast.Int(10))}}}
	content := ast.AuthContent{Policies: []ast.Policy{allowAll}}
	opt := lib.BigLimits()
	switch c.Idx % 5 {
	case 0:
		blocks[0].Rules = []ast.Rule{boom}
	case 1:
		blocks = append(blocks, ast.Block{Facts: []ast.Pred{ast.P("note", ast.Int(int64(r.Intn(9))))}, Rules: []ast.Rule{boom}})
	case 2, 3:
		content.Rules = []ast.Rule{boom}
		content.Facts = []ast.Pred{ast.P("quota", ast.Int(7))}
	default:
		blocks[0].Facts = append(blocks[0].Facts, factsP(8)...)
		blocks[0].Rules = []ast.Rule{{Head: ast.P("pair", vX, vY), Body: []ast.Pred{ast.P("p", vX), ast.P("p", vY)}}}
		opt = biscuit.WithWorldOptions(datalog.WithMaxFacts(20), datalog.WithMaxIterations(1000), datalog.WithMaxDuration(60*time.Second))
	}
	tok, err := buildScenarioToken(c.Seed, fmt.Sprintf("c18f-%d", c.Idx), blocks)
	if err != nil {
		c.Violate("build-refused", err.Error(), nil)
		return
	}
	c.Eval(1)
	var evalErr, saveErr error
	var saved []byte
	pi := lib.Try(func() {
		a, err := tok.B.AuthorizerFor(biscuit.WithSingularRootPublicKey(tok.Pub), opt)
		if err != nil {
			evalErr = err
			return
		}
		lib.AddContent(a, content)
		if c.Idx%5 == 3 {
			_, evalErr = a.Query(ast.Rule{Head: ast.P("out", x), Body: []ast.Pred{ast.P("share", x)}}.Lib())
		} else {
			evalErr = a.Authorize()
		}
		saved, saveErr = a.SerializePolicies()
	})
	desc := map[string]any{"failure_in": where, "token": gen.Texts(tok.Blocks), "evaluation_error": fmt.Sprint(evalErr), "save_error": fmt.Sprint(saveErr), "saved_bytes": len(saved)}
	if pi != nil {
		c.Violate("snapshot-panic/"+pi.Site, pi.Msg, desc)
		return
	}
	if evalErr == nil {
		c.Violate("refusal-scenario-control", "the evaluation was expected to fail", desc)
		return
	}
	if saveErr == nil {
		c.Violate("snapshot-after-failed-evaluation/"+where, fmt.Sprintf("the evaluation failed (%v); SerializePolicies then succeeded (%d bytes)", evalErr, len(saved)), desc)
	}
	c.Count("refusal_after_failed_evaluation", 1)
	c.NT("refusal-after-failure/" + where)
}

func c18Run(c *core.C) {
	r := c.R
	c18RefusalAfterFailure(c)
	if (c.Idx+c.Idx/16)%4 == 3 { // rotate so that every worker stride gets some of the heavy malformed cases
		c18Malformed(c)
		return
	}
	for rep := 0; rep < 3; rep++ {
		s := gen.NewScenario(r, 3, scenOpts)
		countBig(c, s)
		s2 := gen.NewScenario(r, 3, scenOpts)
		countBig(c, s2)
		// strings that only the bytes define (not UTF-8, NUL, a long one): the token states them, the
		// authorizer's check and policy name them as constants, and the snapshot carries those constants
		var oddCheck *ast.Check
		var oddPolicy *ast.Policy
		if r.Intn(2) == 0 {
			odd := gen.Pick(r, []string{"caf\xe9", "\xff\xfe", "a\x00b", "a\xc3", gen.BigString(gen.Pick(r, []int{127, 128, 300, 16384}), r.Intn(5))})
			other := gen.Pick(r, []string{"caf\ufffd", "caf\xe8", "a"})
			s.Blocks[0].Facts = append(s.Blocks[0].Facts, ast.P("odd_name", ast.Str(odd)))
			oddCheck = &ast.Check{Queries: []ast.Rule{{Head: ast.P("query"), Body: []ast.Pred{ast.P("odd_name", ast.Str(odd))}}}}
			oddPolicy = &ast.Policy{Allow: false, Queries: []ast.Rule{{Head: ast.P("query"), Body: []ast.Pred{ast.P("odd_name", ast.Str(other))}}}}
			c.Count("contents_with_odd_strings", 1)
		}
		t1, err1 := buildScenarioToken(c.Seed, fmt.Sprintf("c18a-%d-%d", c.Idx, rep), s2.Blocks) // T1: independent token
		t2, err2 := buildScenarioToken(c.Seed, fmt.Sprintf("c18b-%d-%d", c.Idx, rep), s.Blocks)  // T2: the token the content is about
		if err1 != nil || err2 != nil {
			c.Violate("build-refused", fmt.Sprint(err1, err2), nil)
			continue
		}
		content := s.Auth
		if oddCheck != nil {
			content.Checks = append(append([]ast.Check{}, content.Checks...), *oddCheck)
			content.Policies = append([]ast.Policy{*oddPolicy}, content.Policies...)
		}
		if r.Intn(2) == 0 {
			// every term kind in the snapshot
			f := ast.P("every_kind")
			for _, k := range gen.ScalarKinds {
				f.Terms = append(f.Terms, gen.HardScalar(r, k))
			}
			f.Terms = append(f.Terms, gen.SetOf(r, gen.Pick(r, gen.ScalarKinds), 1+r.Intn(3), true))
			content.Facts = append(append([]ast.Pred{}, content.Facts...), f)
		}
		if rep == 0 {
			// a chain that needs 120 passes (above the default iteration limit, far below the
			// configured one) and a policy list that starts with queries without a body that do
			// NOT match (deny if false; deny if 2 < 1 or 3 < 1): neither decides, everything
			// after them still counts
			fs, rs := ruleChainProg(120)
			content.Facts = append(append([]ast.Pred{}, content.Facts...), fs...)
			content.Rules = append(append([]ast.Rule{}, content.Rules...), rs...)
			content.Checks = append(append([]ast.Check{}, content.Checks...), ast.Check{Queries: []ast.Rule{{Head: ast.P("query"), Body: []ast.Pred{ast.P("step120")}}}})
			no := func(e ast.Expr) ast.Rule { return ast.Rule{Head: ast.P("query"), Exprs: []ast.Expr{e}} }
			lt := func(a, b int64) ast.Expr {
				return ast.Expr{ast.OV(ast.Int(a)), ast.OV(ast.Int(b)), ast.OB(int(ast.BLessThan))}
			}
			content.Policies = append([]ast.Policy{{Allow: false, Queries: []ast.Rule{no(ast.Expr{ast.OV(ast.Bool(false))})}}, {Allow: r.Intn(2) == 0, Queries: []ast.Rule{no(lt(2, 1)), no(lt(3, 1))}}}, content.Policies...)
			c.Count("contents_with_deep_chain_and_bodiless_policies", 1)
		}
		if r.Intn(2) == 0 {
			// date constants before 1970 (negative Unix time) and in the year 9999 inside checks and
			// policies: they travel through the snapshot like any other constant
			neg := func(sec int64) ast.Term { return ast.Date(uint64(sec)) }
			dv := ast.Var("d")
			y1955, y1960, y9999 := neg(-473385600), neg(-315619200), ast.Date(253402300799)
			cmp := func(op int, k ast.Term) ast.Rule {
				return ast.Rule{Head: ast.P("query"), Body: []ast.Pred{ast.P("founded", dv)}, Exprs: []ast.Expr{{ast.OV(dv), ast.OV(k), ast.OB(op)}}}
			}
			content.Facts = append(append([]ast.Pred{}, content.Facts...), ast.P("founded", y1955))
			content.Checks = append(append([]ast.Check{}, content.Checks...), ast.Check{Queries: []ast.Rule{cmp(int(ast.BLessThan), y1960)}})
			_ = y9999 // (a date before 1970 is a wrapped unsigned number of seconds on the wire and in the engine: it does not compare below later dates, which is how the schema defines dates, so no check on that)
			content.Policies = append([]ast.Policy{{Allow: false, Queries: []ast.Rule{cmp(int(ast.BGreaterThan), y1960)}}}, content.Policies...)
			c.Count("contents_with_dates_before_1970", 1)
		}
		if r.Intn(2) == 0 {
			// a set written with a repeated member (the builders accept it): the snapshot must give
			// back an authorizer that counts its members the way the original does
			n := int64(r.Intn(3))
			ds := ast.SetOf(ast.Int(n), ast.Int(n), ast.Int(n+1))
			sv := ast.Var("s")
			content.Facts = append(append([]ast.Pred{}, content.Facts...), ast.P("dup_set", ds))
			lenIs := func(k int64) ast.Expr {
				return ast.Expr{ast.OV(sv), ast.OU(int(ast.ULength)), ast.OV(ast.Int(k)), ast.OB(int(ast.BEqual))}
			}
			q := func(k int64) ast.Rule {
				return ast.Rule{Head: ast.P("query"), Body: []ast.Pred{ast.P("dup_set", sv)}, Exprs: []ast.Expr{lenIs(k)}}
			}
			if r.Intn(2) == 0 {
				content.Checks = append(append([]ast.Check{}, content.Checks...), ast.Check{Queries: []ast.Rule{q(3)}})
			} else {
				content.Policies = append([]ast.Policy{{Allow: false, Queries: []ast.Rule{q(2)}}}, content.Policies...)
			}
			c.Count("contents_with_repeated_set_member", 1)
		}
		desc := map[string]any{"content": gen.AuthTexts(content), "token": gen.Texts(t2.Blocks), "snapshot_taken_for": gen.Texts(t1.Blocks)}
		var snap []byte
		var serr error
		pi := lib.Try(func() {
			a1, err := t1.B.AuthorizerFor(biscuit.WithSingularRootPublicKey(t1.Pub), lib.BigLimits())
			if err != nil {
				serr = err
				return
			}
			lib.AddContent(a1, content)
			snap, serr = a1.SerializePolicies()
			// saving must be refused once the authorizer has been evaluated
			mode := r.Intn(2)
			if mode == 0 {
				_ = a1.Authorize()
			} else {
				_, _ = a1.Query(s.Probes[0].Lib())
			}
			if b, err := a1.SerializePolicies(); err == nil {
				c.Violate("snapshot-after-evaluation/"+[]string{"authorize", "query"}[mode], fmt.Sprintf("SerializePolicies succeeded (%d bytes) after the authorizer was evaluated", len(b)), desc)
			}
			// ... and loading a snapshot into the evaluated authorizer does not make it saveable again
			if serr == nil && a1.LoadPolicies(snap) == nil {
				if b, err := a1.SerializePolicies(); err == nil {
					c.Violate("snapshot-after-evaluation/"+[]string{"authorize", "query"}[mode]+"-then-load", fmt.Sprintf("SerializePolicies succeeded (%d bytes, first snapshot %d bytes) on an evaluated authorizer after LoadPolicies", len(b), len(snap)), desc)
				}
			}
			c.Count("refusal_checks", 1)
		})
		c.Eval(1)
		if pi != nil {
			c.Violate("snapshot-panic/"+pi.Site, pi.Msg, desc)
			continue
		}
		if serr != nil {
			c.Violate("snapshot-refused", "SerializePolicies failed on an unevaluated authorizer: "+serr.Error(), desc)
			continue
		}
		direct := lib.Observe(t2.B, t2.Pub, content, s.Probes)
		var restored lib.Obs
		var lerr error
		pi = lib.Try(func() {
			a2, err := t2.B.AuthorizerFor(biscuit.WithSingularRootPublicKey(t2.Pub), lib.BigLimits())
			if err != nil {
				lerr = err
				return
			}
			if lerr = a2.LoadPolicies(snap); lerr != nil {
				return
			}
			restored = lib.ObserveOn(a2, ast.AuthContent{}, s.Probes)
		})
		c.Eval(2)
		desc["direct"], desc["restored"] = direct, restored
		if pi != nil {
			c.Violate("load-panic/"+pi.Site, pi.Msg, desc)
			continue
		}
		if lerr != nil {
			c.Violate("load-own-snapshot-refused", lerr.Error(), desc)
			continue
		}
		if direct.Class == lib.LIMIT && restored.Class == lib.LIMIT {
			c.Inconc("limit sentinel under large limits")
			continue
		}
		if direct.Class == lib.LIMIT || restored.Class == lib.LIMIT {
			// both authorizers were created with the same (large) limits: one of them hitting a
			// limit means the limits did not survive on that side
			c.Violate("snapshot-changes-outcome/limits", fmt.Sprintf("direct %s (%s), restored %s (%s) - both authorizers were created with the same run limits", direct.Class, direct.Err, restored.Class, restored.Err), desc)
			continue
		}
		if direct.Class != restored.Class {
			c.Violate("snapshot-changes-outcome", fmt.Sprintf("direct %s, restored %s", direct.Class, restored.Class), desc)
		} else if core.JSON(direct.Queries) != core.JSON(restored.Queries) {
			c.Violate("snapshot-changes-query-results", "query results differ between the direct and the restored authorizer", desc)
		}
		c.Count("class_"+string(direct.Class), 1)
		c.NT(core.JSON(desc["content"]) + core.JSON(desc["token"]))
		if rep == 0 {
			c.Sample(map[string]any{"kind": "snapshot round trip", "content": gen.AuthTexts(content), "token": gen.Texts(t2.Blocks), "snapshot_bytes": len(snap), "class": direct.Class})
		}
	}
}

func c18Malformed(c *core.C) {
	r := c.R
	// a valid snapshot to mutate
	s := gen.NewScenario(r, 2, scenOpts)
	countBig(c, s)
	tok, err := buildScenarioToken(c.Seed, fmt.Sprintf("c18m-%d", c.Idx), s.Blocks)
	if err != nil {
		return
	}
	var snap []byte
	lib.Try(func() {
		a, err := tok.B.AuthorizerFor(biscuit.WithSingularRootPublicKey(tok.Pub))
		if err == nil {
			lib.AddContent(a, s.Auth)
			snap, _ = a.SerializePolicies()
		}
	})
	try := func(kind string, x []byte) {
		c.Eval(1)
		pi := lib.Try(func() {
			a, err := tok.B.AuthorizerFor(biscuit.WithSingularRootPublicKey(tok.Pub))
			if err != nil {
				return
			}
			if err := a.LoadPolicies(x); err == nil {
				_ = a.Authorize()
				_, _ = a.Query(s.Probes[0].Lib())
				_ = a.PrintWorld()
				c.Count("malformed_loaded:"+kind, 1)
			} else {
				c.Count("malformed_rejected:"+kind, 1)
			}
		})
		if pi != nil {
			c.Violate("load-panic/"+pi.Site+"/"+kind, "LoadPolicies (or the evaluation that followed) panicked: "+pi.Msg, map[string]any{"kind": kind, "bytes_hex": fmt.Sprintf("%x", x)})
		}
	}
	for i := 0; i < 40 && len(snap) > 0; i++ {
		try("bit-flip", flipBit(snap, r.Intn(len(snap)*8)))
		try("truncation", append([]byte{}, snap[:r.Intn(len(snap))]...))
	}
	for i := 0; i < 10; i++ {
		x := make([]byte, r.Intn(120))
		r.Read(x)
		try("random-bytes", x)
	}
	// adversarial AuthorizerPolicies written by R3
	hostile := c10HostileTerms(r)
	for i := 0; i < 40; i++ {
		h := hostile[r.Intn(len(hostile))]
		_, blocks, _ := c10Program(h, r.Intn(8), r.Intn(ast.NumBinary), gen.Pick(r, []uint64{1024, 1024, 1 << 63, 28}))
		wb := blocks[0]
		p := &wire.Policies{Symbols: wb.Symbols, Facts: wb.Facts, Rules: wb.Rules, Checks: wb.Checks}
		v := gen.Pick(r, []uint32{3, 3, 3, 0, 2, 4})
		p.Version = &v
		for k := 0; k < 1+r.Intn(2); k++ {
			pol := wire.Policy{Kind: gen.Pick(r, []uint64{0, 1, 1, 0, 2, 99, 1 << 31, ^uint64(0), ^uint64(1), 0xFFFFFFFF80000000, 1<<31 - 1}), NoKind: r.Intn(8) == 0}
			if len(wb.Checks) > 0 {
				pol.Queries = wb.Checks[0]
			} else {
				pol.Queries = []wire.Rule{{Head: wire.Pred{Name: 27}, Body: wb.Facts[:min(1, len(wb.Facts))]}}
			}
			p.Policies = append(p.Policies, pol)
		}
		try("hostile-policies", p.Encode())
	}
	for k := 0; k < c10NumStructural; k++ {
		blocks, _ := c10Structural(r, k)
		wb := blocks[0]
		v := uint32(3)
		p := &wire.Policies{Symbols: wb.Symbols, Version: &v, Facts: wb.Facts, Rules: wb.Rules, Checks: wb.Checks, Extra: wb.Extra}
		p.Policies = append(p.Policies, wire.Policy{Kind: 0, Queries: []wire.Rule{{Head: wire.Pred{Name: 27}}}})
		try("structural-policies", p.Encode())
	}
	c.Sample(map[string]any{"kind": "malformed snapshots", "valid_snapshot_bytes": len(snap)})
}

func init() {
	core.Register(&core.Prop{
		ID:    "C12",
		Level: "exploration",
		Rule: "each case: 3 error-free scenarios; for each, a base presentation plus 8 variants: facts permuted, rules permuted, checks permuted, queries inside checks (and inside policies) permuted, every rule/check/policy query with variables renamed consistently (to default symbols and to string constants of the program), everything permuted, facts duplicated through the API, facts duplicated on the wire (token written by R3); authorizer content added in 4 different kind orders; Authorize called 3 times on the base authorizer. Outcome class and the answer sets of one all-variable probe per predicate must be equal to the base. " +
			"Non-trivial = variants of scenarios whose reference closure has >=2 facts and that have >=2 permutable items (distinct by base program and variant kind).",
		Assumptions: []string{"error-free fragment", "policies keep their order (they are an ordered list)"},
		NumCases: func(tier string) int {
			if tier == "thorough" {
				return 50000
			}
			return 300
		},
		Run: c12Run,
		Floor: func(a *core.Agg) []string {
			if a.Cnt["nontrivial_variants"] < 2000 {
				return []string{fmt.Sprintf("non-trivial variants %d < 2000", a.Cnt["nontrivial_variants"])}
			}
			return nil
		},
	})
	core.Register(&core.Prop{
		ID:    "C13",
		Level: "exploration",
		Rule: "each case: 3 histories of 2-6 rounds on ONE authorizer: round n adds random content (perturbation of the previous round's content, or fresh content over the same small universe, sometimes with no facts) through one of three entry paths (Add*, AddAuthorizer of parsed text, LoadPolicies of a snapshot), then runs Authorize, Query+Authorize, Query only or NOTHING, then Reset; one history in four uses a small fact limit so that rounds are aborted by a limit error; the same round is run on a fresh authorizer for the same token given only round n's content; outcome class and probe answers must agree. Leak sensitivity per round is measured with the reference authorizer R5: R5(previous content + this content) differs from R5(this content). " +
			"Non-trivial = distinct leak-sensitive rounds.",
		Assumptions: []string{"large limits; LIMIT is inconclusive"},
		NumCases: func(tier string) int {
			if tier == "thorough" {
				return 70000
			}
			return 400
		},
		Run: c13Run,
		Floor: func(a *core.Agg) []string {
			if a.Cnt["leak_sensitive_rounds"] < 100 {
				return []string{fmt.Sprintf("leak-sensitive rounds %d < 100", a.Cnt["leak_sensitive_rounds"])}
			}
			return nil
		},
	})
	core.Register(&core.Prop{
		ID:        "C18",
		MinCounts: map[string]int{"contents_with_repeated_set_member": 150, "refusal_checks": 300},
		Level:     "exploration",
		Rule: "3 of 4 cases: 3 round trips each - authorizer content (every term kind, default and fresh symbols, 0-2 checks, 0-3 ordered policies of both kinds) is added to an authorizer for token T1, saved with SerializePolicies, loaded with LoadPolicies into a fresh authorizer for an independently drawn token T2 and compared (class + probe answers) with a fresh authorizer for T2 fed the content directly; SerializePolicies after Authorize / Query must fail. 1 of 4 cases: malformed input - 40 bit flips and 40 truncations of a valid snapshot, random bytes, 40 AuthorizerPolicies messages written by R3 with the hostile values of C10 (symbol indexes up to 2^64-1, sets of byte arrays, unknown policy kinds, policies without kind, versions 0/2/4) and 20 structural hostilities; LoadPolicies and the evaluation that follows must not panic. " +
			"Non-trivial = distinct (content, token) round trips.",
		Assumptions: []string{"the loading authorizer is fresh (nothing added before LoadPolicies)"},
		NumCases: func(tier string) int {
			if tier == "thorough" {
				return 30000
			}
			return 300
		},
		Run: c18Run,
		Floor: func(a *core.Agg) []string {
			u := []string{}
			if len(a.NT) < 400 {
				u = append(u, fmt.Sprintf("round trips %d < 400", len(a.NT)))
			}
			if a.Cnt["refusal_checks"] < 300 {
				u = append(u, "refusal checks < 300")
			}
			if a.Cnt["malformed_loaded:hostile-policies"] < 100 {
				u = append(u, "hostile policies that load < 100")
			}
			return u
		},
	})
}
