package props

import (
	"bytes"
	"crypto/ed25519"
	"errors"
	"fmt"
	"io"

	biscuit "github.com/biscuit-auth/biscuit-go/v2"
	"github.com/biscuit-auth/biscuit-go/v2/datalog"

	"verif/harness/ast"
	"verif/harness/core"
	"verif/harness/lib"
	"verif/harness/wire"
)

// C20 - entropy failure is reported, never turned into a panic or a degenerate key.
// Oracle: fault-injecting io.Reader that records what it delivered + R3 chain verifier.
// Exhaustive fault enumeration: operation x failure point k (0..31) x error kind x
// error timing x delivery pattern, plus the no-failure controls.

var errEntropy = errors.New("harness: entropy source failed")

type faultReader struct {
	src       io.Reader
	failAfter int   // total bytes before failing; <0 = never
	err       error // error to return
	withLast  bool  // return the error together with the last delivered bytes
	chunk     int   // max bytes per Read (0 = as requested)
	zeroReads bool  // interleave (0, nil) reads
	delivered []byte
	calls     int
	toggle    bool
	errored   bool // the reader has handed an error to its caller
	stallAt   int  // after this many delivered bytes: twenty (0, nil) reads in a row, once (<0: never)
	stalled   int
	transient bool // the error is handed over once; later reads deliver again
	recovered bool
}

// zeroThen yields 32 zero bytes (a legal, if unlucky, draw) and then the bytes of r.
type zeroThen struct {
	n int
	r io.Reader
}

func (z *zeroThen) Read(p []byte) (int, error) {
	if z.n < 32 {
		k := min(len(p), 32-z.n)
		for i := 0; i < k; i++ {
			p[i] = 0
		}
		z.n += k
		return k, nil
	}
	return z.r.Read(p)
}

func (f *faultReader) Read(p []byte) (int, error) {
	f.calls++
	if len(p) == 0 {
		return 0, nil
	}
	if f.zeroReads {
		f.toggle = !f.toggle
		if f.toggle {
			return 0, nil
		}
	}
	n := len(p)
	if f.chunk > 0 && n > f.chunk {
		n = f.chunk
	}
	if f.stallAt >= 0 {
		if len(f.delivered) == f.stallAt && f.stalled < 20 {
			f.stalled++
			return 0, nil
		}
		if len(f.delivered) < f.stallAt && len(f.delivered)+n > f.stallAt {
			n = f.stallAt - len(f.delivered)
		}
	}
	if f.failAfter >= 0 && !f.recovered {
		left := f.failAfter - len(f.delivered)
		if left <= 0 {
			f.errored = true
			f.recovered = f.transient
			return 0, f.err
		}
		if n >= left {
			n = left
			f.src.Read(p[:n])
			f.delivered = append(f.delivered, p[:n]...)
			if f.withLast {
				f.recovered = f.transient
				// an error handed over with the bytes that complete a 32-byte draw is dropped by
				// io.ReadFull, legitimately; anywhere else the caller has to report it
				if len(f.delivered)%32 != 0 {
					f.errored = true
				}
				return n, f.err
			}
			return n, nil
		}
	}
	f.src.Read(p[:n])
	f.delivered = append(f.delivered, p[:n]...)
	return n, nil
}

var c20Ops = []string{"Builder.Build(WithRNG)", "New(rng)", "Append(built parent)", "Append(re-loaded parent)", "Append(built parent, source replays the parent's stream)", "Append(re-loaded parent, source replays the parent's stream)",
	"Builder.Build(WithRNG), source starts with 32 zero bytes", "New(rng), source starts with 32 zero bytes", "Append(built parent), source starts with 32 zero bytes",
	"Builder.Build(WithRNG) again on the same builder after the failure"}
var c20Errs = []error{io.EOF, io.ErrUnexpectedEOF, errEntropy}
var c20Deliveries = []string{"one-read", "byte-per-read", "zero-length-reads-interleaved", "twenty-zero-length-reads-in-a-row-mid-draw", "error-handed-over-once-then-the-source-works-again"}

func c20Total() int { return len(c20Ops) * (32*len(c20Errs)*2*len(c20Deliveries) + len(c20Deliveries)) }

// readers passed BY VALUE whose value is the zero value of their type (a library that tests
// its source for "is it set?" with anything but a comparison to nil would take them for absent)
type dryByValue struct{}

func (dryByValue) Read(p []byte) (int, error) { return 0, io.EOF }

type zerosByValue struct{}

func (zerosByValue) Read(p []byte) (int, error) {
	for i := range p {
		p[i] = 0
	}
	return len(p), nil
}

var c20ByValueOps = []string{"Builder.Build(WithRNG)", "New(rng)", "Append(built parent)"}

// c20ByValue: case k in 0..5 = (operation k%3, dry source for k<3 / all-zero source for k>=3).
func c20ByValue(c *core.C, k int) {
	op := k % 3
	dry := k < 3
	var src io.Reader = zerosByValue{}
	if dry {
		src = dryByValue{}
	}
	pub, priv := lib.KeyPair(c.Seed, fmt.Sprintf("c20-bv-root-%d", k))
	blk := ast.Block{Facts: []ast.Pred{ast.P("right", ast.Str("file1"), ast.Str("read"))}}
	var tok *biscuit.Biscuit
	var err error
	c.Eval(1)
	pi := lib.Try(func() {
		switch op {
		case 0:
			b := biscuit.NewBuilder(priv, biscuit.WithRNG(src))
			lib.FillAuthority(b, blk)
			tok, err = b.Build()
		case 1:
			bb := biscuit.NewBlockBuilder(&datalog.SymbolTable{})
			lib.FillBlock(bb, blk)
			tok, err = biscuit.New(src, priv, &datalog.SymbolTable{}, bb.Build())
		default:
			parent, perr := lib.Build(priv, lib.NewDetRand(c.Seed, fmt.Sprintf("c20-bv-parent-%d", k)), []ast.Block{blk}, nil)
			if perr != nil {
				err = perr
				return
			}
			bb := parent.B.CreateBlock()
			lib.FillBlock(bb, ast.Block{Facts: []ast.Pred{ast.P("note", ast.Int(1))}})
			tok, err = parent.B.Append(src, bb.Build())
		}
	})
	name := c20ByValueOps[op] + map[bool]string{true: ", dry reader passed by value", false: ", all-zero reader passed by value"}[dry]
	desc := map[string]any{"kind": "fault case", "operation": name}
	switch {
	case pi != nil:
		c.Violate("entropy-panic/"+pi.Site, name+": "+pi.Msg, desc)
	case dry && tok != nil:
		c.Violate("token-despite-entropy-failure/"+name, fmt.Sprintf("a token was returned although the source never delivered a byte (err=%v)", err), desc)
	case dry && err == nil:
		c.Violate("no-error-on-entropy-failure/"+name, "neither token nor error", desc)
	case !dry && (tok == nil || err != nil):
		c.Violate("control-failed/"+name, fmt.Sprintf("%v", err), desc)
	case !dry:
		ser, _ := tok.Serialize()
		env, derr := wire.Decode(ser)
		if derr != nil {
			c.Violate("control-undecodable", derr.Error(), desc)
			break
		}
		if env.ProofKind != wire.ProofSecret || !bytes.Equal(env.Proof, make([]byte, 32)) {
			c.Violate("proof-secret-not-from-source", name+": the source delivered 32 zero bytes, the next secret is something else", desc)
		}
		if verr := wire.VerifyChain(env, pub); verr != nil {
			c.Violate("control-token-does-not-verify", verr.Error(), desc)
		}
	}
	c.NT("by-value/" + name)
	c.Count("by_value_reader_cases", 1)
	c.Sample(desc)
}

func c20Run(c *core.C) {
	if c.Idx >= c20Total() {
		c20ByValue(c, c.Idx-c20Total())
		return
	}
	perOp := 32*len(c20Errs)*2*len(c20Deliveries) + len(c20Deliveries)
	op := c.Idx / perOp
	rest := c.Idx % perOp
	fr := &faultReader{src: lib.NewDetRand(c.Seed, fmt.Sprintf("c20-%d", c.Idx)), failAfter: -1, stallAt: -1}
	zeros := op >= 6 && op <= 8
	retry := op == 9
	replay := op == 4 || op == 5 || zeros // the fault lies beyond the first 32 bytes
	if zeros {
		// a source whose first draw is 32 zero bytes: a library that distrusts it and draws again
		// is handed the error in the second draw
		fr.src = &zeroThen{r: lib.NewDetRand(c.Seed, fmt.Sprintf("c20-%d", c.Idx))}
	} else if replay {
		// the source replays the stream the parent was built from: its first 32 bytes are the
		// secret the parent already carries, and the fault sits in the SECOND 32 bytes - a
		// library that draws again must still report the error it is handed
		fr.src = lib.NewDetRand(c.Seed, fmt.Sprintf("c20-parent-%d", c.Idx))
	}
	desc := map[string]any{"kind": "fault case", "operation": c20Ops[op]}
	var delivery int
	if rest < len(c20Deliveries) {
		delivery = rest
		desc["failure"] = "none (control)"
	} else {
		rest -= len(c20Deliveries)
		delivery = rest % len(c20Deliveries)
		rest /= len(c20Deliveries)
		fr.withLast = rest%2 == 1
		rest /= 2
		fr.err = c20Errs[rest%len(c20Errs)]
		fr.failAfter = rest / len(c20Errs)
		if replay {
			fr.failAfter += 32
		}
		desc["failure"] = fmt.Sprintf("after %d bytes: %v (error with last bytes: %v)", fr.failAfter, fr.err, fr.withLast)
	}
	desc["delivery"] = c20Deliveries[delivery]
	switch delivery {
	case 1:
		fr.chunk = 1
	case 2:
		fr.zeroReads = true
		fr.chunk = 3
	case 3:
		// a source that stalls (reads that return nothing, without an error) in the middle of a draw and then goes on
		fr.stallAt = 5
		if fr.failAfter >= 2 {
			fr.stallAt = fr.failAfter / 2
		}
		if replay {
			fr.stallAt += 32
		}
	case 4:
		fr.transient = true
		fr.chunk = 7
	}
	if fr.failAfter == 0 && fr.withLast {
		// "error together with the last bytes" with zero bytes is the plain error case
		fr.withLast = false
	}

	pub, priv := lib.KeyPair(c.Seed, fmt.Sprintf("c20-root-%d", c.Idx))
	blk := ast.Block{Facts: []ast.Pred{ast.P("right", ast.Str("file1"), ast.Str("read"))}}
	var tok, firstTok *biscuit.Biscuit
	var err, firstErr error
	var parentBefore, parentAfter []byte
	var parentBroken string
	emptyBlock := false
	configured := -1
	c.Eval(1)
	pi := lib.Try(func() {
		switch op {
		case 0, 6:
			b := biscuit.NewBuilder(priv, biscuit.WithRNG(fr))
			lib.FillAuthority(b, blk)
			tok, err = b.Build()
		case 9:
			b := biscuit.NewBuilder(priv, biscuit.WithRNG(fr))
			lib.FillAuthority(b, blk)
			tok, err = b.Build()
			if fr.failAfter >= 0 {
				firstTok, firstErr = tok, err
				// the source recovers; the same builder is asked again
				fr.failAfter = -1
				tok, err = b.Build()
			}
		case 1, 7:
			bb := biscuit.NewBlockBuilder(&datalog.SymbolTable{})
			lib.FillBlock(bb, blk)
			tok, err = biscuit.New(fr, priv, &datalog.SymbolTable{}, bb.Build())
		case 2, 3, 4, 5, 8:
			parent, perr := lib.Build(priv, lib.NewDetRand(c.Seed, fmt.Sprintf("c20-parent-%d", c.Idx)), []ast.Block{blk}, nil)
			if perr != nil {
				err = perr
				return
			}
			if op == 3 || op == 5 {
				// (these two parents also carry one attenuation block already)
				if p2, aerr := parent.Append(lib.NewDetRand(c.Seed, fmt.Sprintf("c20-parent-block-%d", c.Idx)), ast.Block{Facts: []ast.Pred{ast.P("note", ast.Int(1))}}); aerr == nil {
					parent = p2
				}
				parent, perr = parent.Reload()
				if perr != nil {
					err = perr
					return
				}
			}
			bb := parent.B.CreateBlock()
			if emptyBlock = c.Idx%2 == 1; !emptyBlock {
				// (every second case appends a block with nothing in it: it draws key material all the same)
				lib.FillBlock(bb, ast.Block{Checks: []ast.Check{{Queries: []ast.Rule{{Head: ast.P("query"), Body: []ast.Pred{ast.P("right", ast.Var("f"), ast.Str("read"))}}}}}})
			}
			parentBefore, _ = parent.B.Serialize()
			tok, err = parent.B.Append(fr, bb.Build())
			// the parent after the attempt: same bytes, still verifies, and can still be attenuated
			// with a healthy source (a failed attempt leaves nothing behind in it)
			parentAfter, _ = parent.B.Serialize()
			if _, verr := parent.B.AuthorizerFor(biscuit.WithSingularRootPublicKey(pub)); verr != nil {
				parentBroken = "the parent no longer verifies: " + verr.Error()
			}
			bb2 := parent.B.CreateBlock()
			lib.FillBlock(bb2, ast.Block{Facts: []ast.Pred{ast.P("retry", ast.Int(1))}})
			if rt, rerr := parent.B.Append(lib.NewDetRand(c.Seed, fmt.Sprintf("c20-retry-%d", c.Idx)), bb2.Build()); rerr != nil {
				parentBroken = "a later Append with a healthy source failed: " + rerr.Error()
			} else if _, verr := rt.AuthorizerFor(biscuit.WithSingularRootPublicKey(pub)); verr != nil && parentBroken == "" {
				parentBroken = "a token appended later with a healthy source does not verify: " + verr.Error()
			}
		}
	})
	desc["delivered_bytes"] = len(fr.delivered)
	desc["read_calls"] = fr.calls
	if emptyBlock {
		desc["appended_block"] = "empty"
	}
	if pi == nil && parentBefore != nil {
		if !bytes.Equal(parentBefore, parentAfter) {
			parentBroken = "the parent serializes differently after the attempt"
		}
		if parentBroken != "" {
			c.Violate("parent-damaged-by-append-attempt/"+c20Ops[op], parentBroken, desc)
		}
	}
	failing := fr.failAfter >= 0
	if retry && fr.errored {
		// first attempt: the usual obligation (error, no token, no panic); the second attempt on
		// the recovered source is a control: a token whose secret is 32 bytes the source delivered
		configured = len(fr.delivered)
		if pi == nil && firstTok != nil {
			c.Violate("token-despite-entropy-failure/"+c20Ops[op], fmt.Sprintf("first attempt returned a token although the source failed (err=%v)", firstErr), desc)
		} else if pi == nil && firstErr == nil {
			c.Violate("no-error-on-entropy-failure/"+c20Ops[op], "first attempt: neither token nor error", desc)
		}
		failing = false
		c.Count("retries_after_failure", 1)
	}
	if replay {
		// the fault lies beyond the 32 bytes one key needs: it only counts once the library
		// has actually been handed the error
		failing = fr.errored
	}
	key := fmt.Sprintf("%s/k=%d", c20Ops[op], fr.failAfter)
	switch {
	case pi != nil:
		c.Violate("entropy-panic/"+pi.Site, fmt.Sprintf("%s panicked when the source failed after %d bytes: %s", c20Ops[op], fr.failAfter, pi.Msg), desc)
	case failing && tok != nil:
		c.Violate("token-despite-entropy-failure/"+c20Ops[op], fmt.Sprintf("a token was returned although the source failed after %d of 32 bytes (err=%v)", fr.failAfter, err), desc)
	case failing && err == nil:
		c.Violate("no-error-on-entropy-failure/"+c20Ops[op], "neither token nor error", desc)
	case !failing && (err != nil || tok == nil):
		c.Violate("control-failed/"+c20Ops[op], fmt.Sprintf("healthy source, operation failed: %v", err), desc)
	case !failing:
		// a token was returned: its next key pair must be the one derived from the delivered bytes
		ser, _ := tok.Serialize()
		env, derr := wire.Decode(ser)
		if derr != nil {
			c.Violate("control-undecodable", derr.Error(), desc)
			break
		}
		if len(fr.delivered) != 32 && !(replay && len(fr.delivered) > 0 && len(fr.delivered)%32 == 0) && !(retry && configured >= 0) {
			c.Violate("unexpected-entropy-consumption", fmt.Sprintf("%d bytes drawn", len(fr.delivered)), desc)
		}
		all := env.All()
		last := all[len(all)-1]
		// the seed is the last complete 32-byte draw (a library may draw more than once from a
		// replaying source; from any other source exactly one draw is expected, checked above)
		seed := fr.delivered[:min(32, len(fr.delivered))]
		if replay && len(fr.delivered) >= 64 {
			seed = fr.delivered[len(fr.delivered)/32*32-32 : len(fr.delivered)/32*32]
		}
		if retry && configured >= 0 {
			// any 32 consecutive delivered bytes are "the bytes the source actually delivered"
			// (a builder may keep what the failed attempt had read, or start its draw afresh)
			seed = nil
			for i := 0; i+32 <= len(fr.delivered); i++ {
				if bytes.Equal(env.Proof, fr.delivered[i:i+32]) {
					seed = fr.delivered[i : i+32]
				}
			}
		}
		if env.ProofKind != wire.ProofSecret || seed == nil || !bytes.Equal(env.Proof, seed) {
			c.Violate("proof-secret-not-from-source", "the next secret is not the 32 bytes the source delivered", desc)
		} else {
			want := ed25519.NewKeyFromSeed(seed).Public().(ed25519.PublicKey)
			if !bytes.Equal(want, last.Key) {
				c.Violate("next-key-not-from-source", "the announced next key is not the public key of the delivered seed", desc)
			}
		}
		if verr := wire.VerifyChain(env, pub); verr != nil {
			c.Violate("control-token-does-not-verify", verr.Error(), desc)
		}
		if _, aerr := tok.AuthorizerFor(biscuit.WithSingularRootPublicKey(pub)); aerr != nil {
			c.Violate("control-token-rejected-by-library", aerr.Error(), desc)
		}
	}
	c.NT(key + "/" + fmt.Sprint(fr.err) + fmt.Sprint(fr.withLast) + c20Deliveries[delivery])
	if failing {
		c.Count("fault_cases", 1)
	} else {
		c.Count("control_cases", 1)
	}
	if c.Idx%311 == 0 {
		c.Sample(desc)
	}
}

func init() {
	core.Register(&core.Prop{
		ID:        "C20",
		MinCounts: map[string]int{"retries_after_failure": 500, "by_value_reader_cases": 6},
		Level:     "fault_enumeration",
		Rule: fmt.Sprintf("exhaustive fault enumeration (complete in both tiers, %d cases): operation in {Builder.Build with WithRNG, New(rng,...), Append on a built parent, Append on a re-loaded parent, both Appends again with a source that REPLAYS the stream the parent was built from (its first 32 bytes are the secret the parent already carries; failure points 32..63, so a library that draws a second time is handed the error), Build / New / Append with a source whose first 32 bytes are zero (failure points 32..63 likewise), and Build asked AGAIN on the same builder after the failure with the source recovered (the second token's secret must be 32 consecutive delivered bytes), every Append case also checks the PARENT afterwards (same bytes, still verifies, a later Append with a healthy source gives a verifying token) and every second one appends an empty block, and six cases with readers passed by value whose value is the zero value of their type (one never delivers, one delivers zeros)} x failure point k in 0..31 delivered bytes x error in {io.EOF, io.ErrUnexpectedEOF, custom} x {error on the next read, error together with the last bytes} x delivery in {one read, one byte per read, zero-length reads interleaved, twenty zero-length reads in a row in the middle of a draw, error handed over once after which the source works again}, plus the no-failure control of every delivery. Oracle: a source that handed the library an error must give an error and no token (and no panic); a returned token must carry exactly the delivered 32 bytes as next secret, announce the public key of that seed and verify under the independent chain verifier. ", c20Total()+6) +
			"Non-trivial = distinct (operation, k, error, timing, delivery) tuples; every one injects a real fault or is a control.",
		Assumptions: []string{"crypto/ed25519.GenerateKey draws exactly 32 bytes from the supplied reader with io.ReadFull (true for the pinned toolchain go1.23)"},
		NumCases:    func(string) int { return c20Total() + 6 },
		Run:         c20Run,
		Exhaustive:  func(string) bool { return true },
		Floor: func(a *core.Agg) []string {
			u := []string{}
			if a.Cnt["fault_cases"] < 2000 {
				u = append(u, "fault cases < 2000")
			}
			if a.Cnt["control_cases"] < 12 {
				u = append(u, "control cases < 12")
			}
			return u
		},
	})
}
