// Package lib wraps the library under test: deterministic key material,
// token construction from ast blocks, authorizers with generous limits,
// outcome classification, panel observation.  Every library call made through
// this package runs under recover so that a panic becomes an observation.
package lib

import (
	"crypto/ed25519"
	"crypto/sha256"
	"encoding/binary"
	"errors"
	"fmt"
	"io"
	"regexp"
	"runtime/debug"
	"sort"
	"time"

	biscuit "github.com/biscuit-auth/biscuit-go/v2"
	"github.com/biscuit-auth/biscuit-go/v2/datalog"

	"verif/harness/ast"
	"verif/harness/core"
)

// DetRand is a deterministic byte stream (SHA-256 in counter mode).
type DetRand struct {
	seed [32]byte
	ctr  uint64
	buf  []byte
	// Delivered records every byte handed out (used by C20 / C17).
	Delivered []byte
}

func NewDetRand(seed int64, label string) *DetRand {
	h := sha256.New()
	var b [8]byte
	binary.LittleEndian.PutUint64(b[:], uint64(seed))
	h.Write(b[:])
	h.Write([]byte(label))
	d := &DetRand{}
	copy(d.seed[:], h.Sum(nil))
	return d
}

func (d *DetRand) Read(p []byte) (int, error) {
	for i := range p {
		if len(d.buf) == 0 {
			var b [8]byte
			binary.LittleEndian.PutUint64(b[:], d.ctr)
			d.ctr++
			s := sha256.Sum256(append(d.seed[:], b[:]...))
			d.buf = s[:]
		}
		p[i] = d.buf[0]
		d.buf = d.buf[1:]
	}
	d.Delivered = append(d.Delivered, p...)
	return len(p), nil
}

// KeyPair derives an ed25519 key pair from a seed and a label.
func KeyPair(seed int64, label string) (ed25519.PublicKey, ed25519.PrivateKey) {
	r := NewDetRand(seed, "key:"+label)
	var s [32]byte
	r.Read(s[:])
	priv := ed25519.NewKeyFromSeed(s[:])
	return priv.Public().(ed25519.PublicKey), priv
}

// BigLimits: no oracle that is not about limits may depend on the 2 ms default deadline.
func BigLimits() biscuit.AuthorizerOption {
	return biscuit.WithWorldOptions(datalog.WithMaxDuration(60*time.Second), datalog.WithMaxFacts(1000000), datalog.WithMaxIterations(100000))
}

type Class string

const (
	OK      Class = "OK"
	DENY    Class = "DENY"
	NOMATCH Class = "NOMATCH"
	LIMIT   Class = "LIMIT"
	FAIL    Class = "FAIL"
	PANIC   Class = "PANIC"
)

func IsLimit(err error) bool {
	return errors.Is(err, datalog.ErrWorldRunLimitMaxFacts) || errors.Is(err, datalog.ErrWorldRunLimitMaxIterations) || errors.Is(err, datalog.ErrWorldRunLimitTimeout)
}

func Classify(err error) Class {
	switch {
	case err == nil:
		return OK
	case errors.Is(err, biscuit.ErrPolicyDenied):
		return DENY
	case errors.Is(err, biscuit.ErrNoMatchingPolicy):
		return NOMATCH
	case IsLimit(err):
		return LIMIT
	}
	return FAIL
}

// PanicInfo describes a recovered panic.
type PanicInfo struct {
	Msg   string `json:"msg"`
	Site  string `json:"site"`
	Stack string `json:"stack"`
}

// Try runs f under recover.
func Try(f func()) (pi *PanicInfo) {
	defer func() {
		if r := recover(); r != nil {
			st := string(debug.Stack())
			pi = &PanicInfo{Msg: fmt.Sprint(r), Site: core.PanicSite(st), Stack: core.Tail(st, 3000)}
		}
	}()
	f()
	return nil
}

// FillBlock adds the content of b to a block builder; it returns the content
// actually accepted (duplicate facts are refused by the builder with an error).
func FillBlock(bb biscuit.BlockBuilder, b ast.Block) (ast.Block, error) {
	acc := ast.Block{Context: b.Context}
	for _, f := range b.Facts {
		if err := bb.AddFact(f.LibFact()); err != nil {
			if errors.Is(err, biscuit.ErrDuplicateFact) {
				continue
			}
			return acc, err
		}
		acc.Facts = append(acc.Facts, f)
	}
	for _, r := range b.Rules {
		if err := bb.AddRule(r.Lib()); err != nil {
			return acc, err
		}
		acc.Rules = append(acc.Rules, r)
	}
	for _, c := range b.Checks {
		if err := bb.AddCheck(c.Lib()); err != nil {
			return acc, err
		}
		acc.Checks = append(acc.Checks, c)
	}
	if b.Context != "" {
		bb.SetContext(b.Context)
	}
	return acc, nil
}

func FillAuthority(bld biscuit.Builder, b ast.Block) (ast.Block, error) {
	acc := ast.Block{Context: b.Context}
	for _, f := range b.Facts {
		if err := bld.AddAuthorityFact(f.LibFact()); err != nil {
			if errors.Is(err, biscuit.ErrDuplicateFact) {
				continue
			}
			return acc, err
		}
		acc.Facts = append(acc.Facts, f)
	}
	for _, r := range b.Rules {
		if err := bld.AddAuthorityRule(r.Lib()); err != nil {
			return acc, err
		}
		acc.Rules = append(acc.Rules, r)
	}
	for _, c := range b.Checks {
		if err := bld.AddAuthorityCheck(c.Lib()); err != nil {
			return acc, err
		}
		acc.Checks = append(acc.Checks, c)
	}
	if b.Context != "" {
		bld.SetContext(b.Context)
	}
	return acc, nil
}

// Token is a library token together with the model of what its callers put in.
type Token struct {
	B      *biscuit.Biscuit
	Blocks []ast.Block // accepted content, block 0 = authority
	Pub    ed25519.PublicKey
	Priv   ed25519.PrivateKey
	KeyID  *uint32
	Sealed bool
}

// Build creates a token whose authority block is blocks[0] and appends the rest.
func Build(priv ed25519.PrivateKey, rng io.Reader, blocks []ast.Block, keyID *uint32) (*Token, error) {
	opts := []any{}
	_ = opts
	var bld biscuit.Builder
	if keyID != nil {
		bld = biscuit.NewBuilder(priv, biscuit.WithRNG(rng), biscuit.WithRootKeyID(*keyID))
	} else {
		bld = biscuit.NewBuilder(priv, biscuit.WithRNG(rng))
	}
	acc, err := FillAuthority(bld, blocks[0])
	if err != nil {
		return nil, err
	}
	b, err := bld.Build()
	if err != nil {
		return nil, err
	}
	t := &Token{B: b, Blocks: []ast.Block{acc}, Pub: priv.Public().(ed25519.PublicKey), Priv: priv, KeyID: keyID}
	for _, blk := range blocks[1:] {
		t, err = t.Append(rng, blk)
		if err != nil {
			return nil, err
		}
	}
	return t, nil
}

// noise performs operations on a token that must leave no trace (C08): a block builder that is
// created, filled with never-seen names and abandoned, and lookups of facts the token does not
// hold (unknown names, unknown strings, an unknown string inside a set). Every Append of every
// property goes through it first, so a trace left behind shows up in that property's own
// oracle (wire content, printed form, identifiers ...).
func (t *Token) noise() {
	n := len(t.Blocks)
	Try(func() {
		bb := t.B.CreateBlock()
		_ = bb.AddFact(ast.P(fmt.Sprintf("abandoned_%d", n), ast.Str(fmt.Sprintf("never_built_%d", n))).LibFact())
		_, _ = t.B.GetBlockID(ast.P(fmt.Sprintf("no_such_fact_%d", n), ast.Str(fmt.Sprintf("no_such_string_%d", n))).LibFact())
		if len(t.Blocks) > 0 && len(t.Blocks[0].Facts) > 0 {
			known := t.Blocks[0].Facts[0].Name
			_, _ = t.B.GetBlockID(ast.P(known, ast.Str(fmt.Sprintf("lookup_only_%d", n))).LibFact())
			_, _ = t.B.GetBlockID(ast.P(known, ast.SetOf(ast.Str(fmt.Sprintf("lookup_only_in_set_%d", n)))).LibFact())
		}
	})
}

// Append attenuates t with blk (t itself is left alone).
func (t *Token) Append(rng io.Reader, blk ast.Block) (*Token, error) {
	t.noise()
	bb := t.B.CreateBlock()
	acc, err := FillBlock(bb, blk)
	if err != nil {
		return nil, err
	}
	nb, err := t.B.Append(rng, bb.Build())
	if err != nil {
		return nil, err
	}
	blocks := append(append([]ast.Block{}, t.Blocks...), acc)
	return &Token{B: nb, Blocks: blocks, Pub: t.Pub, Priv: t.Priv, KeyID: t.KeyID, Sealed: false}, nil
}

func (t *Token) Seal(rng io.Reader) (*Token, error) {
	// a holder that has already stored or sent the token before sealing it: whatever Serialize
	// remembers about the unsealed token must not come back out of the sealed one
	_, _ = t.B.Serialize()
	nb, err := t.B.Seal(rng)
	if err != nil {
		return nil, err
	}
	return &Token{B: nb, Blocks: t.Blocks, Pub: t.Pub, Priv: t.Priv, KeyID: t.KeyID, Sealed: true}, nil
}

// Reload serializes and unmarshals.
func (t *Token) Reload() (*Token, error) {
	ser, err := t.B.Serialize()
	if err != nil {
		return nil, err
	}
	nb, err := biscuit.Unmarshal(ser)
	if err != nil {
		return nil, err
	}
	// the caller's buffer is the caller's: what Serialize returned and what Unmarshal was
	// given is overwritten, as a receive loop re-using its buffer would do; neither token may
	// keep a reference into it
	for i := range ser {
		ser[i] = 0xAA
	}
	return &Token{B: nb, Blocks: t.Blocks, Pub: t.Pub, Priv: t.Priv, KeyID: t.KeyID, Sealed: t.Sealed}, nil
}

var failedCheckRe = regexp.MustCompile(`failed to verify (?:block #?(\d+) )?check #(\d+)`)

// FailedChecks extracts which checks an authorization error names as failed.
func FailedChecks(msg string) []string {
	out := []string{}
	for _, m := range failedCheckRe.FindAllStringSubmatch(msg, -1) {
		if m[1] == "" {
			out = append(out, "A:"+m[2])
		} else {
			out = append(out, "B"+m[1]+":"+m[2])
		}
	}
	sort.Strings(out)
	return out
}

// AddContent adds authorizer content to an authorizer.
func AddContent(a biscuit.Authorizer, c ast.AuthContent) {
	for _, f := range c.Facts {
		a.AddFact(f.LibFact())
	}
	for _, r := range c.Rules {
		a.AddRule(r.Lib())
	}
	for _, ch := range c.Checks {
		a.AddCheck(ch.Lib())
	}
	for _, p := range c.Policies {
		a.AddPolicy(p.Lib())
	}
}

// Obs is what one authorization looks like from outside.
type Obs struct {
	Failed  []string   `json:"failed_checks,omitempty"` // checks the library names as failed: A:<j> (authorizer), B<i>:<j> (block i)
	Class   Class      `json:"class"`
	Err     string     `json:"err,omitempty"`
	Queries [][]string `json:"queries,omitempty"` // per probe: sorted canonical fact keys, or ["ERR"]
	Panic   *PanicInfo `json:"panic,omitempty"`
}

func (o Obs) Key() string {
	return string(o.Class) + "|" + core.JSON(o.Queries)
}

// QueryKeys runs a probe query and returns canonical sorted answers.
func QueryKeys(a biscuit.Authorizer, q ast.Rule) ([]string, error) {
	fs, err := a.Query(q.Lib())
	if err != nil {
		return nil, err
	}
	preds := make([]ast.Pred, 0, len(fs))
	for _, f := range fs {
		p, err := ast.FromLibPred(f.Predicate)
		if err != nil {
			return nil, err
		}
		preds = append(preds, p)
	}
	return ast.FactSetKeys(preds), nil
}

// Observe authorizes the token with the content on a fresh authorizer (large limits) and runs the probes.
func Observe(b *biscuit.Biscuit, pub ed25519.PublicKey, content ast.AuthContent, probes []ast.Rule) Obs {
	var o Obs
	pi := Try(func() {
		a, err := b.AuthorizerFor(biscuit.WithSingularRootPublicKey(pub), BigLimits())
		if err != nil {
			o.Class = FAIL
			o.Err = "authorizer: " + err.Error()
			return
		}
		o = ObserveOn(a, content, probes)
	})
	if pi != nil {
		o.Class = PANIC
		o.Panic = pi
	}
	return o
}

// ObserveOn adds content to an existing authorizer, authorizes and probes.
func ObserveOn(a biscuit.Authorizer, content ast.AuthContent, probes []ast.Rule) Obs {
	var o Obs
	pi := Try(func() {
		AddContent(a, content)
		err := a.Authorize()
		o.Class = Classify(err)
		if err != nil {
			o.Err = core.Head(err.Error(), 300)
			o.Failed = FailedChecks(err.Error())
		}
		for _, q := range probes {
			ks, err := QueryKeys(a, q)
			if err != nil {
				if IsLimit(err) {
					ks = []string{"LIMIT"}
				} else {
					ks = []string{"ERR"}
				}
			}
			o.Queries = append(o.Queries, ks)
		}
	})
	if pi != nil {
		o.Class = PANIC
		o.Panic = pi
	}
	return o
}

// SortedCopy returns a sorted copy of a string slice.
func SortedCopy(s []string) []string {
	c := append([]string{}, s...)
	sort.Strings(c)
	return c
}
