#!/bin/bash
# tools/try_seed.sh <worktree> <check ids...>
# 1. confirms the seeded change: suite passes with it, demonstration fails with it and passes without;
# 2. runs the named quick checks against the worktree (VERIF_REPO), never touching /repo;
# 3. restores the committed evidence files.  (no git stash: the stash stack is shared by worktrees)
export GOFLAGS=-mod=mod GOPROXY=off GOSUMDB=off GOTOOLCHAIN=local
wt="$1"; shift
cd "$wt" || exit 2
echo "== change:"; git diff --stat | tail -4
demo=$(git status --porcelain | grep '^??' | grep '_test.go' | awk '{print $2}' | head -3)
echo "== demo files: $demo"
pk=""; for d in $demo; do pk="$pk ./$(dirname $d)"; done
suite() { # up to 5 attempts: the pinned suite flakes on its 2 ms wall-clock deadline under load
  for a in 1 2 3 4 5; do
    out=$(go test -vet=off -count=1 -p 2 ./... 2>&1)
    if ! echo "$out" | grep -q "^FAIL\|^--- FAIL\|^panic"; then echo "suite ok (attempt $a)"; return; fi
    nt=$(echo "$out" | grep -B3 -A12 "^--- FAIL\|^    --- FAIL" | grep -c "runtime limit: timeout")
    last="$out"
  done
  echo "suite NOT ok after 5 attempts; failing tests:"; echo "$last" | grep "^--- FAIL\|^    --- FAIL\|^panic\|^FAIL" | head -10
  echo "  (lines mentioning the 2 ms timeout flake near failures: $nt)"
}
mkdir -p /tmp/demo-hold
for d in $demo; do mv "$d" /tmp/demo-hold/$(echo $d | tr '/' '_'); done
echo "== suite with change (demo file set aside): $(suite)"
for d in $demo; do mv /tmp/demo-hold/$(echo $d | tr '/' '_') "$d"; done
if [ -n "$demo" ]; then
  echo "== demo WITH change (expect FAIL):"; go test ${RACEFLAG:-} -vet=off -count=1 -run "${DEMO_RUN:-Seeded|seeded|Demo|demo|ZZ|Zz}" $pk 2>&1 | grep -E "^(--- FAIL|FAIL|ok|panic|WARNING: DATA RACE)" | sort | uniq -c | head -8
  git diff > /tmp/try_seed.change.patch; git checkout -q -- $(git diff --name-only)
  echo "== demo WITHOUT change (expect ok):"; go test ${RACEFLAG:-} -vet=off -count=1 -run "${DEMO_RUN:-Seeded|seeded|Demo|demo|ZZ|Zz}" $pk 2>&1 | grep -E "^(--- FAIL|FAIL|ok|panic|WARNING: DATA RACE)" | sort | uniq -c | head -8
  git apply /tmp/try_seed.change.patch
fi
cd /verif
for id in "$@"; do
  echo "== check $id against $wt"
  VERIF_REPO="$wt" ./check $id quick 2>&1 | grep -E "^(  key |INCONCLUSIVE|C[0-9]+ quick)" | awk '!seen[$0]++' | head -${LINES_MAX:-10}
done
git checkout -q -- evidence
