#!/bin/bash
# tools/try_seed.sh <worktree> <check ids...>
# 1. confirms the seeded change: suite passes with it, demonstration fails with it and passes without;
# 2. runs the named quick checks against the worktree (VERIF_REPO), never touching /repo;
# 3. restores the committed evidence files.
export GOFLAGS=-mod=mod GOPROXY=off GOSUMDB=off GOTOOLCHAIN=local
wt="$1"; shift
cd "$wt" || exit 2
echo "== change:"; git diff --stat | tail -3
demo=$(git status --porcelain | grep '^??' | grep '_test.go' | awk '{print $2}' | head -3)
echo "== demo files: $demo"
echo "== suite with change:"; go test -vet=off -count=1 ./... 2>&1 | grep -v "no test files" | grep -v "^ok" | head -20
pk=""; for d in $demo; do pk="$pk ./$(dirname $d)"; done
if [ -n "$demo" ]; then
  # run only the demo tests: the suite (minus demo) must pass, the demo must fail
  mkdir -p /tmp/demo-hold
  echo "== suite without demo file, with change:"
  for d in $demo; do mv "$d" /tmp/demo-hold/$(echo $d | tr '/' '_'); done
  go test -vet=off -count=1 ./... 2>&1 | grep -v "no test files" | tr '\n' ' '; echo
  for d in $demo; do mv /tmp/demo-hold/$(echo $d | tr '/' '_') "$d"; done
  echo "== demo WITH change (expect FAIL):"; go test ${RACEFLAG:-} -vet=off -count=1 $pk 2>&1 | grep -E "^(--- FAIL|FAIL|ok|panic)" | head -8
  git stash -q
  echo "== demo WITHOUT change (expect ok):"; go test ${RACEFLAG:-} -vet=off -count=1 $pk 2>&1 | grep -E "^(--- FAIL|FAIL|ok|panic)" | head -8
  git stash pop -q
fi
cd /verif
for id in "$@"; do
  echo "== check $id against $wt"
  VERIF_REPO="$wt" ./check $id quick 2>&1 | grep -E "^(VIOLATION|  key |INCONCLUSIVE|C[0-9]+ quick)" | awk '!seen[$0]++' | head -${LINES_MAX:-14}
done
git checkout -q -- evidence
