#!/usr/bin/env python3
"""Rewrites known_findings.json from the table below (never run by a check)."""
import json, subprocess
def sha(prefix):
    out = subprocess.run(["git","-C","/repo","log","--format=%H %s"],capture_output=True,text=True).stdout
    for l in out.splitlines():
        h,s=l.split(" ",1)
        if s.startswith(prefix): return h
    raise SystemExit("no commit for "+prefix)
F=[]
def fixed(prop,key,commit_prefix,what):
    F.append({"property":prop,"key":key,"status":"fixed","commit":sha(commit_prefix),"what":what,
              "line":"fixed: property=%s %s %s"%(prop,sha(commit_prefix)[:12],what)})
def open_(prop,key,what):
    F.append({"property":prop,"key":key,"status":"open","what":what})
exec(open("/verif/tools/findings_table.py").read())
json.dump(F,open("/verif/known_findings.json","w"),indent=1)
print(len(F),"findings")
