reg("C06", "exploration", "reference-model monitor (big-int evaluator R2) over exhaustive operator x operand-kind table + random trees/sequences, panic monitor; operand-mutation / repeat-evaluation / symmetry-of-equality / half-way-failure-then-evaluate oracles; Authorizer.Query with fresh literals",
    "Every operator is run on every ordered pair of a 45-value boundary pool (complete in both tiers), plus a 33x33 integer grid and seeded random trees/sequences; each result is compared with an independent math/big evaluator. Held means: no panic, no wrapped value, no type-check miss on any executed evaluation.",
    "Trusts the harness's transcription of the documented operator table (DESIGN appendix A) and Go's regexp; lenient cells (mixed-kind sets, duplicate sets) only require no panic.",
    "DESIGN.md 3/C06")
reg("C05", "exploration", "reference-model monitor (independent least-fixpoint evaluator R1) over random programs + bounded-exhaustive join scope; race detector in thorough; the same programs under a tight fact limit and in a clone of the world; regex look-alike programs back to back; boundary arithmetic inside rules; ordering operators on boundary pairs; joins on sets spelled in different member orders",
    "World.Run / QueryRule results are compared, as sets of resolved facts, with a reference fixpoint written with a different algorithm (naive iteration, back-tracking unification); the hand-written join enumerator is additionally run on every body of 1-3 atoms over a small vocabulary against every ordered fact list (complete in thorough, sampled in quick).",
    "Trusts R1/R2 (about 300 lines, written from the property statement); programs in the lenient expression zone are skipped and counted.",
    "DESIGN.md 3/C05")
reg("C04", "exploration", "reference-model monitor (decision procedure R5 over R1) with perturbation neighbours, the same content through parsed text, a saved snapshot and one re-used authorizer; non-boolean filters; block facts vs authorizer rules; ordering of integers whose difference exceeds 64 bits; Query before Authorize; big shapes (counts, lengths, widths beyond 2^7..2^16) whose verdict depends on the last element",
    "The outcome class of Authorize (OK / DENY / NOMATCH / FAIL) is compared with an independent implementation of the specified decision procedure on seeded scenarios and on neighbours that separate the usual inversions; content is entered through builder structs and through parsed text.",
    "Stated fragment only (ground facts, range-restricted rules, error-free or uniformly failing expressions); order-dependent cases give no verdict and are counted.",
    "DESIGN.md 3/C04")
reg("C07", "exploration", "independent wire decoder (R3) vs the model carried by token histories; byte-exact re-serialization; version gate; every default-table name as string / predicate / variable; big shapes and non-UTF-8 strings in history blocks",
    "Every live token of seeded build/append/seal/reload histories is decoded by a hand-written protobuf reader with its own symbol table and compared block for block with what the callers supplied; Unmarshal and re-serialization are compared; unsupported versions re-signed by R3 must be rejected.",
    "Trusts R3's transcription of the schema and default symbols.",
    "DESIGN.md 3/C07")
reg("C08", "exploration", "model-based history monitor: every live token and built block re-observed after every operation (three templates: random interleavings, chain-and-fork, builders re-used after Build); trace-free noise before every append of every workload; contexts, non-UTF-8 and long strings, big shapes in blocks",
    "After each operation of a seeded history every live token is re-snapshotted (print, bytes, reload, ids, panel behaviour) and compared with its creation snapshot; new tokens and built blocks are decoded independently and compared with what their own caller put in.",
    "A built block is appended only to the token its builder was created from. Root and block builders are also used again after Build (fill, build, fill, build).",
    "DESIGN.md 3/C08")
reg("C16", "exploration", "model + reference key selection, bounded-exhaustive over ids x histories x key maps x defaults",
    "All 6 identifiers x all legal derivation histories up to length 4 x 27 lookups per token are executed; the identifier of every derived token and the outcome of every lookup are compared with a reference selection function; one key source value is also reused across tokens with different identifiers.",
    "ed25519 signatures by another key do not verify.",
    "DESIGN.md 3/C16")
reg("C20", "fault_enumeration", "fault-injecting io.Reader, every failure point x error kind x delivery pattern; independent chain verifier on returned tokens; sources that stall (twenty empty reads mid-draw) and sources that recover after one error",
    "Exhaustive enumeration (5796 cases) of failure points 0..31, three error kinds, two timings and three delivery patterns for all four operations that draw randomness; both Appends again with a source that replays the parent's own stream and Build / New / Append with a source starting with 32 zero bytes (failure points 32..63); Build asked again on the same builder after the failure; readers passed by value whose value is their zero value; plus controls.",
    "GenerateKey draws exactly 32 bytes with io.ReadFull (pinned toolchain).",
    "DESIGN.md 3/C20")
reg("C01", "fault_enumeration", "mutation catalogue decided by an independent chain verifier (R3); run.iter hook shows no Datalog before rejection; blocks of 4-70 KiB in the mutated families",
    "Every mutant of the catalogue M1-M13 (plus every single-bit flip and prefix of sampled tokens, and the sample corpus) is presented under four keys; a token the independent verifier rejects must be rejected by Unmarshal/AuthorizerFor, library-made and R3-written valid chains must be accepted.",
    "ed25519 trusted; mutants R3 cannot decode canonically only carry the no-panic obligation.",
    "DESIGN.md 3/C01")
reg("C10", "exploration", "panic monitor + process-exit journal over isolated workers; hostile schema-valid tokens validly signed by an attacker root; enumerated set algebra incl. computed empty sets; use-after-timeout monitor in the race build; one ill-formed expression per token in every placement",
    "Every API is driven under recover over tokens from hostile bytes; validly signed adversarial field values reach evaluation; a process death is attributed to its input by the worker journal.",
    "32-byte keys; address space capped.",
    "DESIGN.md 3/C10")
reg("C02", "exploration", "relational monitor over (parent, attenuated child) pairs with hostile appended blocks (builder API and raw R3-written blocks signed with the token's own secret); refused parents followed by blocks of 1..65536 failing checks and by blocks restating the parent's facts under a fact limit one below the least model; big shapes in scenarios",
    "For every pair the same authorizer content is run on the parent and on the child (first and second Authorize, and Authorize after Query on the same authorizer); a child accepted while its parent is refused is a violation. Blocks that hit a deterministic run limit are followed by harmless ones. Appended blocks state and derive exactly what the policies and checks ask for, and include wire-level shapes the builder cannot produce.",
    "Large limits; parent LIMIT is inconclusive.",
    "DESIGN.md 3/C02")
reg("C03", "exploration", "relational monitor (with vs without a check-free block at every position; class + probe answers) + leak sensitivity measured with reference authorizer R5; restated set facts compared as spelled; queries and PrintWorld after an Authorize that failed inside a later block",
    "A check-free block that states or derives what policies/checks ask for is inserted at every position; outcome class and authorizer query answers must not change; blocks asking for facts of the reference authority closure must pass.",
    "Error-free fragment.",
    "DESIGN.md 3/C03")
reg("C12", "exploration", "relational monitor over presentation variants (permutations, consistent renaming, duplication incl. on the wire, repeated Authorize); one set stated in two member orders and asked for in a third; alternatives {cannot be evaluated, holds} in both orders",
    "8 presentation variants per scenario and 3 Authorize calls on one authorizer must give the base outcome class and the base derived-fact sets.",
    "Error-free fragment; policies keep their order.",
    "DESIGN.md 3/C12")
reg("C13", "exploration", "relational monitor: reused authorizer after Reset vs fresh authorizer, over multi-round histories; leak sensitivity measured with R5; outcome also held against R5 (process-wide leaks hit the fresh authorizer too); error text compared",
    "Each round of a 2-6 round history is replayed on a fresh authorizer; class and query answers must agree; the number of rounds where a leak would be visible is measured.",
    "Large limits.",
    "DESIGN.md 3/C13")
reg("C18", "exploration", "relational monitor (direct vs snapshot-restored authorizer across independent tokens) + refusal after evaluation + panic monitor on malformed snapshots; strings defined only by their bytes (non-UTF-8, NUL, 16 KiB) named by saved checks and policies",
    "Content saved on an authorizer for token T1 is loaded for an independent token T2 and compared with direct entry; saving after Authorize/Query must fail; bit-flipped, truncated, random and R3-written hostile AuthorizerPolicies must not panic.",
    "Loading authorizer is fresh.",
    "DESIGN.md 3/C18")
reg("C09", "exploration", "sealed/unsealed twin comparison over an authorizer panel + error presence + mutation catalogue on the sealed envelope decided by R3",
    "Every sealed twin (also re-loaded) is compared with its source over a panel, Append/Seal on it must fail, and the sealed envelope gets the C01 catalogue plus a bit flip in every byte of seal, last signature and last key.",
    "As C01.",
    "DESIGN.md 3/C09")
reg("C17", "exploration", "provenance monitor: case-wide identifier <-> signing-event map (injective both ways), prefix rule, R3 signature equality; seeded stream and crypto/rand",
    "Histories with only three block contents under one root; every identifier is tied to the signing event that created its block and checked for stability, uniqueness, prefix inheritance and equality with the signature on the wire.",
    "Seeded stream does not repeat 32-byte windows.",
    "DESIGN.md 3/C17")
reg("C11", "exploration", "reference fixpoint vs limit sentinels over limit grids; duration sentinel; entry-point option checks; goroutine-profile quiescence monitor with delay hooks; logical-step oracle for the deadline (hook combine.step); limits after LoadPolicies / Reset and in rule-less blocks; limit error still reported after an earlier failed check",
    "No run cut short by a limit may look like success; every entry point must honour options; after every outcome kind (27 shapes + authorizer-level) the goroutine profile must show no goroutine of the call parked forever.",
    "Quiescence restated as: parked on a private channel for 5 consecutive polls; duration verdict has 10 s slack.",
    "DESIGN.md 3/C11")
reg("C14", "exploration", "grammar-generator reference (R4: expected value computed from the syntax tree) + negative catalogue + panic and add-safety monitors over corruptions; default-table names and raw line breaks in the lexical pools",
    "Texts are printed from randomly drawn syntax trees with exactly the parentheses the documented precedence requires (plus redundant ones) and random layout; the parse must equal the value computed from the tree; a negative catalogue must be rejected; corrupted texts must neither panic nor produce values that panic when added to builders / authorizers.",
    "GRAMMAR.md is the documented grammar; explored lexical domain stated in the evidence rule.",
    "DESIGN.md 3/C14")
reg("C15", "exploration", "round-trip monitor parse -> build -> print -> parse against the first parse; print equality across serialization; default-table names as variables",
    "Grammar-generated blocks in the printable domain are built into tokens at positions 0-3, printed and parsed back; the second parse must equal the first; String()/Code() must not panic and be identical before and after serialization.",
    "The first parse is the reference.",
    "DESIGN.md 3/C15")
reg("C19", "exploration", "Go race detector over a shared-token stress workload + constant-state sequential model computed before or after the concurrent phase; one option value and unsorted parsed values shared by all goroutines; refused sealed copies and limit errors among the operations; arithmetic beyond 32 bits in every goroutine",
    "All cases run in the -race build: 2-16 goroutines share one token (built / re-loaded / sealed), a parser instance and parsed values; race reports are collected from the race log; every concurrent result must equal the same call made alone; evidence lists which operation pairs really overlapped.",
    "Only races between accesses executed in the same run are visible; repetition counts are in the evidence.",
    "DESIGN.md 3/C19")
