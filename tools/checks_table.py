reg("C06", "exploration", "reference-model monitor (big-int evaluator R2) over exhaustive operator x operand-kind table + random trees/sequences, panic monitor",
    "Every operator is run on every ordered pair of a 45-value boundary pool (complete in both tiers), plus a 33x33 integer grid and seeded random trees/sequences; each result is compared with an independent math/big evaluator. Held means: no panic, no wrapped value, no type-check miss on any executed evaluation.",
    "Trusts the harness's transcription of the documented operator table (DESIGN appendix A) and Go's regexp; lenient cells (mixed-kind sets, duplicate sets) only require no panic.",
    "DESIGN.md 3/C06")
reg("C05", "exploration", "reference-model monitor (independent least-fixpoint evaluator R1) over random programs + bounded-exhaustive join scope; race detector in thorough",
    "World.Run / QueryRule results are compared, as sets of resolved facts, with a reference fixpoint written with a different algorithm (naive iteration, back-tracking unification); the hand-written join enumerator is additionally run on every body of 1-3 atoms over a small vocabulary against every ordered fact list (complete in thorough, sampled in quick).",
    "Trusts R1/R2 (about 300 lines, written from the property statement); programs in the lenient expression zone are skipped and counted.",
    "DESIGN.md 3/C05")
reg("C04", "exploration", "reference-model monitor (decision procedure R5 over R1) with perturbation neighbours",
    "The outcome class of Authorize (OK / DENY / NOMATCH / FAIL) is compared with an independent implementation of the specified decision procedure on seeded scenarios and on neighbours that separate the usual inversions; content is entered through builder structs and through parsed text.",
    "Stated fragment only (ground facts, range-restricted rules, error-free or uniformly failing expressions); order-dependent cases give no verdict and are counted.",
    "DESIGN.md 3/C04")
reg("C07", "exploration", "independent wire decoder (R3) vs the model carried by token histories; byte-exact re-serialization; version gate",
    "Every live token of seeded build/append/seal/reload histories is decoded by a hand-written protobuf reader with its own symbol table and compared block for block with what the callers supplied; Unmarshal and re-serialization are compared; unsupported versions re-signed by R3 must be rejected.",
    "Trusts R3's transcription of the schema and default symbols.",
    "DESIGN.md 3/C07")
reg("C08", "exploration", "model-based history monitor: every live token and built block re-observed after every operation",
    "After each operation of a seeded history every live token is re-snapshotted (print, bytes, reload, ids, panel behaviour) and compared with its creation snapshot; new tokens and built blocks are decoded independently and compared with what their own caller put in.",
    "Block builders are built once and appended to the token they were created from.",
    "DESIGN.md 3/C08")
reg("C16", "exploration", "model + reference key selection, bounded-exhaustive over ids x histories x key maps x defaults",
    "All 6 identifiers x all legal derivation histories up to length 4 x 27 lookups per token are executed; the identifier of every derived token and the outcome of every lookup are compared with a reference selection function.",
    "ed25519 signatures by another key do not verify.",
    "DESIGN.md 3/C16")
reg("C20", "fault_enumeration", "fault-injecting io.Reader, every failure point x error kind x delivery pattern; independent chain verifier on returned tokens",
    "Exhaustive enumeration (2316 cases) of failure points 0..31, three error kinds, two timings and three delivery patterns for all four operations that draw randomness, plus controls.",
    "GenerateKey draws exactly 32 bytes with io.ReadFull (pinned toolchain).",
    "DESIGN.md 3/C20")
reg("C01", "fault_enumeration", "mutation catalogue decided by an independent chain verifier (R3); run.iter hook shows no Datalog before rejection",
    "Every mutant of the catalogue M1-M13 (plus every single-bit flip and prefix of sampled tokens, and the sample corpus) is presented under four keys; a token the independent verifier rejects must be rejected by Unmarshal/AuthorizerFor, library-made and R3-written valid chains must be accepted.",
    "ed25519 trusted; mutants R3 cannot decode canonically only carry the no-panic obligation.",
    "DESIGN.md 3/C01")
reg("C10", "exploration", "panic monitor + process-exit journal over isolated workers; hostile schema-valid tokens validly signed by an attacker root",
    "Every API is driven under recover over tokens from hostile bytes; validly signed adversarial field values reach evaluation; a process death is attributed to its input by the worker journal.",
    "32-byte keys; address space capped.",
    "DESIGN.md 3/C10")
