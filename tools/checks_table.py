reg("C06", "exploration", "reference-model monitor (big-int evaluator R2) over exhaustive operator x operand-kind table + random trees/sequences, panic monitor",
    "Every operator is run on every ordered pair of a 45-value boundary pool (complete in both tiers), plus a 33x33 integer grid and seeded random trees/sequences; each result is compared with an independent math/big evaluator. Held means: no panic, no wrapped value, no type-check miss on any executed evaluation.",
    "Trusts the harness's transcription of the documented operator table (DESIGN appendix A) and Go's regexp; lenient cells (mixed-kind sets, duplicate sets) only require no panic.",
    "DESIGN.md 3/C06")
