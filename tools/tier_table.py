#!/usr/bin/env python3
# tools/tier_table.py <thorough-log> : prints DESIGN 7.7 (per-property templates, tier sizes, observed totals)
import json,re,subprocess,sys,os
T={
"C01":"mutation catalogue M1-M13 on family members and samples; every single-bit flip / prefix; deep forks; boundary-value content; repeat presentations on one object; default-key source",
"C02":"parent/child pairs with hostile blocks (builder + raw); refused parents (limits, run error, false expression-only check; authority or last block); dangling-symbol completion (raw, library append, seal, in memory); three call orders",
"C03":"with/without a check-free block at every position (class, failed checks, probes, three call orders); rule-only blocks; shared set terms; late content; dangling-symbol scenario",
"C04":"reference decision procedure on scenarios + 5 neighbours, parsed text, snapshot, re-used authorizer; non-boolean filters; block facts vs authorizer rules; string lengths; queries with fresh literals",
"C05":"random untyped / typed / chain programs vs reference fixpoint; exhaustive 1-3 atom join scope over all fact orders; tight fact limit; world clone; regex look-alikes; boundary arithmetic",
"C06":"every operator x every ordered pair of a 45-value pool; 33x33 integer grid; malformed sequences and stack depths; random trees; operand mutation, repeat, symmetry, poison-then-evaluate; dangling strings; Query literals",
"C07":"histories decoded by the independent reader; AddBlock path with a refused duplicate; custom base tables; version gate; samples byte-for-byte",
"C08":"random interleavings, chain-and-fork, builder re-use (root and block builders, AddBlock after Build); every live token re-observed after every operation; dangling-symbol scenario",
"C09":"sealed/unsealed twins over a panel; Append/Seal refusal; custom base symbols; hostile sources; full mutation catalogue + every bit of seal signature, last signature, last key",
"C10":"hostile values x placements, structural and envelope hostility, byte-level noise, set algebra, operator kinds, plain look-ups, tiny-limit stage; use-after-timeout under the race detector",
"C11":"limit grids vs reference; three duration programs (one measured in logical steps); entry points x tokens x {fresh, LoadPolicies, Reset}; quiescence monitor over shapes with delay hooks",
"C12":"8 presentation variants of scenarios with rule chains, regex pairs, self-joins; join-only fact orders; iteration limit x rule order; repeated Authorize",
"C13":"multi-round histories over entry paths, modes, limits; reused vs fresh vs reference; error text; half-way failing expressions",
"C14":"grammar-generated facts / rules / checks / policies / blocks / authorizers with random layout vs the generator's denotation; negative catalogue; corruptions; failed parse before valid parse",
"C15":"parse -> build -> print -> parse at block positions 0-3 (denotation used when the first parse fails); print equality across serialization; custom base tables",
"C16":"6 identifiers x all derivation histories <= 4 x 27 lookups; shared key source; builder asked again; option orders",
"C17":"identifier <-> signing event map over families (seeded, crypto/rand, short-read and counter sources); same builder twice; appended-to identifiers",
"C18":"direct vs restored across tokens; refusal after evaluation, after load, after FAILED evaluation; deep chain; body-less policies; dates; repeated set members; malformed snapshots",
"C19":"15 operations x 2-16 goroutines x GOMAXPROCS 2/4/16 on built / re-loaded / sealed tokens, model before or after the concurrent phase; everything under the race detector",
"C20":"every failure point x error x timing x delivery for 10 operation kinds + by-value readers; parent re-checked after every Append; empty blocks",
}
env=dict(os.environ,GOFLAGS='-mod=mod',GOPROXY='off',GOSUMDB='off',GOTOOLCHAIN='local')
sizes={}
for l in subprocess.check_output(['go','run','-tags','verif','./cmd/vcheck','sizes'],cwd='/verif/harness',env=env).decode().split('\n'):
    c=[x.strip() for x in l.split('|')]
    if len(c)>5: sizes[c[1]]=(c[2],c[3],c[4],c[5])
th={}
if len(sys.argv)>1:
    for l in open(sys.argv[1]):
        m=re.search(r'\[exit (\d)\] (C\d\d) thorough.*evaluations=(\d+) distinct_nontrivial=(\d+) violations=(\d+).*wall=([\d.]+)s',l)
        if m: th[m.group(2)]=m.groups()
print('| id | level | quick cases (evaluations) | thorough cases (evaluations, wall) | race cases q/t | what is driven |')
print('|---|---|---|---|---|---|')
for id in sorted(T):
    ev=json.load(open('/verif/evidence/%s.json'%id))
    q=ev.get('coverage',{}).get('counters',{})
    qe=ev.get('coverage',{}).get('evaluations','')
    lv,qc,tc,rc=sizes.get(id,('','','',''))
    t=th.get(id)
    tt='%s (%s, %ss)'%(tc,t[2],t[5]) if t else tc
    print('| %s | %s | %s (%s) | %s | %s | %s |'%(id,lv,qc,qe,tt,rc,T[id]))
