fixed("C06","expr-value-where-error/grid//","fix: integer division MinInt64","MinInt64 / -1 returned MinInt64 instead of an overflow error")
fixed("C06","expr-panic/datalog.Set.Equal/*","fix: set equality, union and intersection","==, union, intersection on sets of byte arrays panicked (hash of unhashable type datalog.Bytes)")
fixed("C08","built-block-content-changed","fix: SymbolTable.Clone shared","two block builders created from one parent overwrote each other's new symbols (check if foo(1) became check if bar(1))")
fixed("C07","block-facts-differ","fix: SymbolTable.Clone shared","sibling tokens derived from one parent carried each other's symbols on the wire")
