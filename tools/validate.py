#!/usr/bin/env python3
import json, sys, glob, jsonschema
m=json.load(open('/verif/MANIFEST.json')); s=json.load(open('/root/.vp/MANIFEST.schema.json'))
jsonschema.validate(m,s); print("manifest valid")
es=json.load(open('/root/.vp/EVIDENCE.schema.json'))
for f in sorted(glob.glob('/verif/evidence/*.json')):
    e=json.load(open(f)); jsonschema.validate(e,es); print(f, "valid", e["tier"], "nt=", e["coverage"]["distinct_nontrivial"], "viol=", e.get("violations"))
