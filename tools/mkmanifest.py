#!/usr/bin/env python3
"""Regenerates /verif/MANIFEST.json from the table below (keeps the manifest valid at all times)."""
import json, os, subprocess
HERE = os.path.dirname(os.path.dirname(os.path.abspath(__file__)))
props = [json.loads(l) for l in open(os.path.join(HERE, "properties.jsonl"))]

# id -> (category, technique, level text, level note, design ref)
CHECKS = {}
def reg(i, cat, tech, text, note, ref):
    CHECKS[i] = dict(cat=cat, tech=tech, text=text, note=note, ref=ref)

exec(open(os.path.join(HERE, "tools", "checks_table.py")).read())

hook_commits = []
try:
    out = subprocess.run(["git", "-C", "/repo", "log", "--format=%H %s"], capture_output=True, text=True).stdout
    for l in out.splitlines():
        h, s = l.split(" ", 1)
        if s.startswith("verif hook"):
            hook_commits.append(h)
except Exception:
    pass

checks, na = [], []
for p in props:
    i = p["id"]
    if i in CHECKS:
        c = CHECKS[i]
        checks.append({
            "property_id": i,
            "quick_cmd": f"./check {i} quick",
            "thorough_cmd": f"./check {i} thorough",
            "evidence_file": f"evidence/{i}.json",
            "replay_cmd_template": f"./check {i} --replay {{path}}",
            "engine": "vcheck",
            "level_claimed": {"category": c["cat"], "text": c["text"], "design_ref": c["ref"]},
            "level_note": c["note"],
            "technique": c["tech"],
        })
    else:
        na.append({"property_id": i, "reason": "check not built yet in this session (runtime monitor planned in DESIGN.md section 3); not claimed until it runs clean"})

m = {
    "version": 1,
    "setup_cmd": "./check --setup",
    "hooks": {
        "guard": "verif",
        "enable": "go build -tags verif (the harness module replaces github.com/biscuit-auth/biscuit-go/v2 with /repo, so every check rebuilds from /repo's working tree)",
        "baseline_off_cmd": "cd /repo && GOFLAGS=-mod=mod GOPROXY=off GOSUMDB=off GOTOOLCHAIN=local go test -json -vet=off -count=1 -timeout 25m ./...",
        "source_commits": hook_commits,
        "add_only": True,
    },
    "engines": [{"name": "vcheck", "path": "harness/cmd/vcheck", "serves_properties": sorted(CHECKS.keys()),
                 "kind_free_text": "Go driver + isolated worker processes (journal attributes process deaths to cases); reference-model, relational, history and panic/exit monitors; Go race detector; goroutine-profile quiescence monitor"}],
    "checks": checks,
    "not_applicable": na,
    "notes": "Runtime monitoring only: every verdict comes from observing executions of the real library. Exit 0 = held on everything explored and coverage floor met; 1 = VIOLATION; 2 = inconclusive (floor not met / build failed). See DESIGN.md.",
}
json.dump(m, open(os.path.join(HERE, "MANIFEST.json"), "w"), indent=1)
print("MANIFEST.json:", len(checks), "checks,", len(na), "not applicable")
