#!/bin/bash
# tools/try7.sh <worktree> <A|B> <check ids...> : confirm one seeded change of a two-patch worktree (demo passes without,
# fails with; every package of the existing suite passes with the change, retried per package for the pinned 2 ms
# deadline flake), then run the named quick checks from ${VDIR:-/verif} against the worktree. Parallel-safe per worktree.
export GOFLAGS=-mod=mod GOPROXY=off GOSUMDB=off GOTOOLCHAIN=local
wt="$1"; which="$2"; shift; shift
cd "$wt" || exit 2
[ -n "$(git diff --name-only)" ] && { echo "tree not clean, resetting"; git checkout -q -- .; }
[ -f $which.patch ] || { echo "no $which.patch"; exit 2; }
demo=$(git status --porcelain | grep '^??' | grep "_${which}_test.go\|_${which,,}_test.go" | awk '{print $2}' | head -2)
[ -z "$demo" ] && demo=$(git status --porcelain | grep '^??' | grep "_test.go" | awk '{print $2}')
pk=""; for d in $demo; do pk="$pk ./$(dirname $d)"; done
pk=$(echo $pk | tr ' ' '\n' | sort -u | tr '\n' ' ')
echo "== $wt $which: $(grep -c '^+++' $which.patch) file(s), demo: $demo"
run_demo() { for a in 1 2 3; do o=$(go test ${RACEFLAG:-} -vet=off -count=1 -run "Seeded${which}|seeded${which}|Seeded_${which}" $pk 2>&1); echo "$o" | grep -q "^ok" && ! echo "$o" | grep -q "^FAIL\|^--- FAIL" && break; [ "$1" = fail ] && break; done; echo "$o" | grep -E "^(--- FAIL|FAIL|ok|panic|WARNING: DATA RACE)" | sort | uniq -c | head -6; }
echo "-- demo WITHOUT change (expect ok)"; run_demo ok
git apply $which.patch || { echo "PATCH DOES NOT APPLY"; exit 2; }
echo "-- demo WITH change (expect FAIL of the $which test)"; run_demo fail
hold=/tmp/demo-hold-$(basename $wt); mkdir -p $hold; all=$(git status --porcelain | grep '^??' | grep '_test.go' | awk '{print $2}')
for d in $all; do mv "$d" $hold/$(echo $d | tr '/' '_'); done
bad=""
for p in $(go list ./... 2>/dev/null); do
  ok=0; for a in 1 2 3 4 5 6 7 8; do out=$(go test -vet=off -count=1 $p 2>&1); if ! echo "$out" | grep -q "^FAIL\|^--- FAIL\|^panic"; then ok=$a; break; fi; done
  [ $ok -eq 0 ] && { bad="$bad $p"; echo "$out" | grep "^--- FAIL\|^    --- FAIL\|^FAIL\|timeout" | head -6; }
done
if [ -z "$bad" ]; then echo "-- suite with change: ok"; else echo "-- suite with change: NOT ok:$bad"; fi
for d in $all; do mv $hold/$(echo $d | tr '/' '_') "$d"; done
cd ${VDIR:-/verif}
for id in "$@"; do
  VERIF_REPO="$wt" ./check $id quick 2>&1 | grep -E "^(  key |INCONCLUSIVE|C[0-9]+ quick)" | awk '!seen[$0]++' | head -${LINES_MAX:-7}
done
git checkout -q -- evidence 2>/dev/null
cd "$wt" && git checkout -q -- .
