#!/bin/bash
# tools/try_patch_fast.sh <worktree> <A|B> <check ids...> : apply, run the named quick checks only (demo + suite were confirmed by try_patch.sh), undo
export GOFLAGS=-mod=mod GOPROXY=off GOSUMDB=off GOTOOLCHAIN=local
wt="$1"; which="$2"; shift; shift
cd "$wt" || exit 2
[ -n "$(git diff --name-only)" ] && git checkout -q -- .
git apply $which.patch || { echo "PATCH DOES NOT APPLY"; exit 2; }
cd /verif
for id in "$@"; do
  echo "== $wt $which -> $id"
  VERIF_REPO="$wt" ./check $id quick 2>&1 | grep -E "^(  key |INCONCLUSIVE|C[0-9]+ quick)" | awk '!seen[$0]++' | head -${LINES_MAX:-7}
done
git checkout -q -- evidence
cd "$wt" && git checkout -q -- .
