#!/bin/bash
# tools/seed_matrix.sh : applies every kept seeded change to /repo (git apply), runs the listed
# quick checks, undoes it straight afterwards (git checkout), and writes seeded/MATRIX.md.
# /repo must be clean and no background run may be using it.
cd /verif || exit 2
[ -n "$(git -C /repo status --porcelain)" ] && { echo "/repo not clean"; exit 2; }
declare -A CHECKS=(
 [C01-sealed-last-block-unverified]="C01 C09"
 [C02-two-phase-block-worlds-shared-capacity]="C02 C03"
 [C03-prepare-then-evaluate-block-worlds]="C03 C02"
 [C04-query-error-aborts-check]="C04"
 [C05-stale-backjump-marker]="C05 C04"
 [C06-native-mul-overflow-check]="C06"
 [C07-union-intersection-swapped-on-encode]="C07"
 [C08-append-aliases-parent-blocks]="C08 C19"
 [C09-seal-drops-key-id-zero]="C09 C16"
 [C10-indexed-set-ops-on-byte-sets]="C10 C06"
 [C11-fixpoint-flag-overwritten]="C11 C05"
 [C12-progress-flag-last-rule-only]="C12 C05"
 [C13-reset-skips-clone-when-not-modified]="C13"
 [C14-negative-int-lexeme-swallows-minus]="C14"
 [C15-rule-head-used-as-format-string]="C15"
 [C16-empty-map-entry-falls-back-to-default]="C16"
 [C17-append-aliases-container-blocks]="C17 C08"
 [C18-policy-queries-sized-by-policy-count]="C18"
 [C19-append-aliases-container-blocks-concurrent]="C19 C08"
 [C20-eof-at-key-boundary-tolerated]="C20"
 [R2-C01B-append-shares-parent-signed-blocks]="C01 C08"
 [R2-C02A-query-loads-token-facts-into-authorizer-world]="C02 C03"
 [R2-C07A-append-symbol-table-plain-append]="C07 C08"
 [R2-C07B-root-key-id-zero-treated-as-absent]="C07 C16"
 [R2-C10A-intersect-presized-result]="C10 C06"
 [R2-C17A-append-shares-parent-signed-blocks]="C17 C08"
 [R2-C17B-next-key-seeded-with-single-read]="C17 C20"
 [R2-C19A-append-appends-to-parent-signed-blocks]="C19 C08"
 [R3-C02A-query-merges-block-worlds-into-authorizer-world]="C02 C03"
 [R3-C03A-authority-loaded-once-per-authorizer]="C03 C04"
 [R3-C04A-stale-block-worlds-reused]="C04 C13"
 [R3-C05B-derivation-budget-counts-rederived-facts]="C05 C11"
 [R3-C07A-createblock-shares-token-symbol-table]="C07 C08"
 [R3-C12B-join-restart-position-zero-sentinel]="C12 C05"
 [R3-C15A-getblockid-interns-into-token-table]="C15 C08"
 [R3-C19B-getblockid-fast-path-misses-strings-in-sets-concurrent]="C19 C08"
 [R4-C01A-unmarshal-refuses-dates-before-1970]="C01 C07"
 [R4-C03A-intersect-filters-in-place-across-block-worlds]="C03 C06"
 [R4-C05B-advance-indexes-single-decrement]="C05 C12"
 [R4-C08B-serialize-memo-copied-by-seal]="C08 C09"
 [R4-C09A-sealed-last-block-signature-skipped]="C09 C01"
 [R4-C10A-set-equal-indexes-empty-sets]="C10 C06"
 [R4-C10B-run-presizes-by-remaining-fact-budget]="C10 C11"
 [R4-C12B-advance-indexes-without-carry-loop]="C12 C05"
 [R4-C13A-evaluation-stack-free-list-dirty]="C13 C06"
 [R4-C17A-serialize-memo-copied-by-append]="C17 C08"
 [R5-C03A-seal-forgets-per-block-symbol-counts]="C03 C09"
 [R5-C04A-non-boolean-expression-taken-for-true]="C04"
 [R5-C05A-mul-overflow-by-division-check]="C05 C06"
 [R5-C06B-symbol-str-bound-on-empty-table]="C06 C10"
 [R5-C07A-sealed-container-helper-omits-key-id]="C07 C16"
 [R5-C08A-clone-blocks-symbol-counts-off-by-one]="C08 C02"
 [R5-C09B-seal-fork-forgets-symbol-counts]="C09 C02"
 [R5-C10A-binary-op-table-negative-kind]="C10"
 [R5-C15A-function-token-list-splits-names]="C15 C14"
 [R5-C17B-empty-block-append-returns-equivalent-token]="C17 C08"
 [R6-C01A-default-key-copied-with-zero-length]="C01 C16"
 [R6-C04A-policy-kind-variable-hoisted]="C04 C18"
 [R6-C04B-string-length-counts-runes]="C04 C06"
 [R6-C06A-query-evaluates-with-another-symbol-table]="C06 C04"
 [R6-C08B-append-takes-address-of-range-variable]="C08 C07"
 [R6-C13A-base-world-dropped-reset-loses-limits]="C13 C11"
 [R6-C15A-unmarshaler-extends-default-table]="C15 C07"
 [R6-C18A-loaded-world-has-default-limits]="C18 C11"
 [R6-C20B-empty-block-append-returns-clone]="C20 C17"
)
out=${OUT:-seeded/MATRIX.md}
{ echo "# Seeded changes x checks (quick tier, VERIF_SEED=${VERIF_SEED:-1}, /repo $(git -C /repo rev-parse --short HEAD))"; echo
  echo "Each row: the change was applied to /repo with git apply, the checks were run, the change was undone."; echo
  echo "| seeded change | check | exit | violations | first violation keys |"; echo "|---|---|---|---|---|"; } > $out
for d in $(ls seeded | grep -v MATRIX | grep "${ONLY:-.}"); do
  [ -f seeded/$d/patch.diff ] || continue
  git -C /repo apply /verif/seeded/$d/patch.diff || { echo "| $d | - | patch does not apply to this HEAD (see its meta.json) | | |" >> $out; continue; }
  ids="${CHECKS[$d]}"; [ -z "$ids" ] && ids=$(echo $d | sed -n 's/^R[0-9]-\(C[0-9][0-9]\).*/\1/p')
  for id in $ids; do
    o=$(./check $id quick 2>&1); code=$?
    v=$(echo "$o" | tail -1 | sed -n 's/.*violations=\([0-9]*\).*/\1/p')
    keys=$(echo "$o" | grep '^  key=' | sed 's/^  key=//' | awk '!s[$0]++' | head -3 | tr '\n' ';' | sed 's/|/\\|/g')
    echo "| $d | $id | $code | $v | $keys |" >> $out
    echo "$d $id exit=$code violations=$v"
  done
  git -C /repo checkout -- .
done
git checkout -q -- evidence
[ -n "$(git -C /repo status --porcelain)" ] && echo "WARNING /repo not clean afterwards"
