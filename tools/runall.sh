#!/bin/bash
# tools/runall.sh <quick|thorough> [ids...]   runs checks one after another and prints a summary line each
tier="${1:-quick}"; shift
ids="$@"; [ -z "$ids" ] && ids="C01 C02 C03 C04 C05 C06 C07 C08 C09 C10 C11 C12 C13 C14 C15 C16 C17 C18 C19 C20"
cd "$(dirname "$0")/.."
rc=0
for id in $ids; do
  out=$(./check $id $tier 2>&1); code=$?
  echo "$out" | grep -E "^(VIOLATION|KNOWN-FINDING|INCONCLUSIVE)" | head -5
  echo "$out" | tail -1 | sed "s/^/[exit $code] /"
  [ $code -ne 0 ] && rc=1
done
exit $rc
