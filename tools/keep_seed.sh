#!/bin/bash
# tools/keep_seed.sh <worktree> <name> <property> "<needs to manifest>" "<caught by ...>" "<what I ran>"
wt="$1"; name="$2"; prop="$3"; needs="$4"; caught="$5"; ran="$6"
d=/verif/seeded/$name; mkdir -p $d
git -C "$wt" diff > $d/patch.diff
for f in $(git -C "$wt" status --porcelain | grep '^??' | awk '{print $2}'); do
  case "$f" in *_test.go|SEEDED.md|*.go) cp "$wt/$f" $d/$(echo $f | tr '/' '_');; esac
done
python3 - "$d" "$prop" "$needs" "$caught" "$ran" "$name" <<'PY'
import json,sys
d,prop,needs,caught,ran,name=sys.argv[1:7]
json.dump({"name":name,"breaks_property":prop,"needs_to_manifest":needs,"caught_by":caught,"what_i_ran":ran,
 "files":{"patch":"patch.diff (git diff against the repaired /repo HEAD)","demonstration":"*_test.go copied from the scratch worktree (path separators replaced by _)","author_notes":"SEEDED.md"}},open(d+"/meta.json","w"),indent=1)
PY
ls $d
