#!/bin/bash
# tools/try_patch.sh <worktree> <A|B> <check ids...> : round-2 seeds (two patches per worktree, tree left unchanged)
export GOFLAGS=-mod=mod GOPROXY=off GOSUMDB=off GOTOOLCHAIN=local
wt="$1"; which="$2"; shift; shift
cd "$wt" || exit 2
[ -n "$(git diff --name-only)" ] && { echo "tree not clean, resetting"; git checkout -q -- .; }
[ -f $which.patch ] || { echo "no $which.patch"; exit 2; }
demo=$(git status --porcelain | grep '^??' | grep "_${which}_test.go\|_${which,,}_test.go" | awk '{print $2}' | head -2)
[ -z "$demo" ] && demo=$(git status --porcelain | grep '^??' | grep "_test.go" | awk '{print $2}')
pk=""; for d in $demo; do pk="$pk ./$(dirname $d)"; done
pk=$(echo $pk | tr ' ' '\n' | sort -u | tr '\n' ' ')
echo "== $wt $which: $(grep -c '^+++' $which.patch) file(s), demo: $demo"
run_demo() { go test ${RACEFLAG:-} -vet=off -count=1 -run "Seeded|seeded" $pk 2>&1 | grep -E "^(--- FAIL|FAIL|ok|panic|WARNING: DATA RACE)" | sort | uniq -c | head -8; }
echo "-- demo WITHOUT change (expect ok)"; run_demo
git apply $which.patch || { echo "PATCH DOES NOT APPLY"; exit 2; }
echo "-- demo WITH change (expect FAIL of the $which test)"; run_demo
# suite with the change, demo files set aside
mkdir -p /tmp/demo-hold2; all=$(git status --porcelain | grep '^??' | grep '_test.go' | awk '{print $2}')
for d in $all; do mv "$d" /tmp/demo-hold2/$(echo $d | tr '/' '_'); done
ok=0; for a in 1 2 3 4 5 6; do out=$(go test -vet=off -count=1 -p 2 ./... 2>&1); if ! echo "$out" | grep -q "^FAIL\|^--- FAIL\|^panic"; then ok=$a; break; fi; done
if [ $ok -gt 0 ]; then echo "-- suite with change: ok (attempt $ok)"; else echo "-- suite with change: NOT ok after 6 attempts:"; echo "$out" | grep "^--- FAIL\|^    --- FAIL\|^FAIL\|timeout" | head -8; fi
for d in $all; do mv /tmp/demo-hold2/$(echo $d | tr '/' '_') "$d"; done
cd /verif
for id in "$@"; do
  VERIF_REPO="$wt" ./check $id quick 2>&1 | grep -E "^(  key |INCONCLUSIVE|C[0-9]+ quick)" | awk '!seen[$0]++' | head -${LINES_MAX:-7}
done
git checkout -q -- evidence
cd "$wt" && git checkout -q -- .
